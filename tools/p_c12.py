"""C12 — failures surface to the caller with a schedule that reproduces them."""
import os, re, shutil, subprocess, tempfile
from concurrent.futures import ThreadPoolExecutor
from common import Ctx, VHARNESS, BUILD, JOBS

PROPS = ["Props/C12.v"]

FAILING = [  # (ms, script, objs, bodies, kind)
    ("none", "-", "-", "pk", "deadlock"),
    ("none", "0,0,1", "-", "sp1;pk|pk", "deadlock"),
    ("none", "-", "m,m", "sp1;lk0;yd;lk1|lk1;yd;lk0", None),          # deadlock or pass depending on the script
    ("none", "-", "a0", "a0.add.1;pn", "panic"),
    ("none", "1,1,1", "a0", "sp1;a0.add.1;jn0|a0.add.2;pn", "panic"),
    ("none", "-", "a0,m", "lk1;a0.add.1;pn", "panic"),
    ("fail:2", "-", "a0", "a0.add.1;a0.add.1;a0.add.1", "stepbound"),
    ("fail:3", "1,0,1", "a0", "sp1;yd;yd;yd|yd;yd", "stepbound"),
    ("none", "1,0,1,0", "cu,e", "sp1;rc0|dt0.0;dt0.1;dt0.2", None),
]
PASSING = [
    ("none", "-", "a0", "a0.add.1"),
    ("none", "1,0,1", "a0,m", "sp1;lk1;a0.add.1;ul1;jn0|lk1;a0.add.2;ul1"),
    ("cont:2", "-", "a0", "yd;yd;yd;yd"),
    ("none", "0,x", "a0", "yd;yd;yd"),
]


def run_history(runs, timeout=120):
    d = tempfile.mkdtemp(prefix="vhist-", dir=os.path.join(BUILD))
    try:
        inp = "\n".join("run %s %s %s %s 1 %s %s" % (r["persist"] + r.get("ug", ""), r["thread"], r["ms"], r["script"], r["objs"], r["bodies"]) for r in runs) + "\n"
        # the process runs inside the directory, so that FailurePersistence::File(None) ("the current directory", persistence `cwd`)
        # writes where File(Some(dir)) does
        p = subprocess.run([VHARNESS, "history", d], input=inp, stdout=subprocess.PIPE, stderr=subprocess.PIPE, text=True, timeout=timeout, cwd=d)
        outs = [l for l in p.stdout.split("\n") if l.startswith("R ")]
        segs = {}
        cur = None
        for line in p.stderr.split("\n"):
            m = re.match(r"@@(BEGIN|END) (\d+)", line)
            if m:
                cur = int(m.group(2)) if m.group(1) == "BEGIN" else None
                if cur is not None:
                    segs[cur] = []
                continue
            if cur is not None:
                segs[cur].append(line)
        res = []
        for k, r in enumerate(runs):
            if k >= len(outs):
                res.append({"abort": True, "rc": p.returncode})
                continue
            o = outs[k]
            term = re.search(r"T=(\S+)", o).group(1)
            payload = re.search(r"payload=(\S+)", o).group(1)
            sched = re.search(r"S=(\S*)", o).group(1)
            files = re.search(r"files=(.*)$", o).group(1)
            text = "\n".join(segs.get(k, []))
            printed = re.findall(r'failing schedule:\n"\n(.*?)\n"', text, re.S)
            res.append({"term": term, "payload": payload, "sched": sched, "printed": [x.replace("\n", "|") for x in printed],
                        "files": [] if files == "-" else [f.split(":", 1)[1] for f in files.split(",")],
                        "persisted_msg": text.count("failing schedule persisted to file")})
        return res
    finally:
        shutil.rmtree(d, ignore_errors=True)


def run(tier):
    ctx = Ctx("C12", tier)
    rng = ctx.rng
    ctx.gen_params()
    for pf in PROPS:
        ctx.proof_gate(pf)
    if not (ctx.build_model() and ctx.build_harness()):
        return ctx.finish()
    n = 250 if tier == "quick" else 3000
    hists = []
    # directed first: the witnesses of F2
    P = {"ms": "none", "script": "-", "objs": "-", "bodies": "pk"}
    hists.append([dict(P, persist="none", thread="same"), dict(P, persist="print", thread="same")])
    hists.append([dict(P, persist="print", thread="same"), dict(P, persist="print", thread="same")])
    hists.append([dict(P, persist="print", thread="same"), dict(P, persist="none", thread="same")])
    hists.append([dict(ms="none", script="-", objs="a0", bodies="a0.add.1", persist="none", thread="same", ug="+e"),
                  dict(ms="none", script="-", objs="a0,m", bodies="lk1;a0.add.1;pn", persist="print", thread="same")])
    hists.append([dict(ms="none", script="-", objs="a0", bodies="a0.add.1", persist="none", thread="same"),
                  dict(ms="none", script="-", objs="a0", bodies="a0.add.1;pn", persist="file", thread="same")])
    # a failure reached through a spurious wake-up of a parked task: the emitted schedule names a task that is blocked in park
    hists.append([dict(ms="none", script="0,0,0,0,0,0,0,0", objs="a0", bodies="sp1;pk;pn|yd;yd;yd;yd", persist="print", thread="same"),
                  dict(ms="none", script="0,0,1,0,0,0,0,0", objs="a0", bodies="sp1;yd;pk;a0.ld;pn|yd;yd;yd;yd", persist="file", thread="same")])
    hists.append([dict(ms="none", script="-", objs="a0", bodies="a0.add.1;pn", persist="cwd", thread="same"),
                  dict(ms="none", script="-", objs="a0,m", bodies="sp1;lk1;jn0|lk1", persist="cwd", thread="new")])
    for _ in range(n):
        h = []
        for _ in range(rng.randint(1, 5)):
            if rng.random() < 0.65:
                ms, script, objs, bodies, _k = rng.choice(FAILING)
            else:
                ms, script, objs, bodies = rng.choice(PASSING)
            # the ungraceful-shutdown settings of a run are its own too: runs that cannot panic sometimes ask for early
            # return / dropped continuation functions, which must not change how a LATER run reports its panic
            ug = rng.choice(["", "", "+e", "+e+d", "+d"]) if "pn" not in bodies else ""
            h.append({"ms": ms, "script": script, "objs": objs, "bodies": bodies, "persist": rng.choice(["none", "print", "print", "file", "file", "cwd"]),
                      "thread": rng.choice(["same", "same", "new"]), "ug": ug})
        hists.append(h)
    with ThreadPoolExecutor(max_workers=JOBS) as ex:
        results = list(ex.map(run_history, hists))
    ctx.evaluations += len(hists)
    ctx.programs += len(hists)
    ctx.traces_validated += len(hists)
    # model side: what Engine/Failure.v says is emitted for the observed outcomes
    mcases = []
    for h, res in zip(hists, results):
        parts = []
        tid = 0
        for r, o in zip(h, res):
            if o.get("abort"):
                parts = None
                break
            t = 0
            if r["thread"] == "new":
                tid += 1
                t = tid
            kind = "ok" if o["term"] == "ok" else "panic" if o["term"].startswith("panic") else "deadlock" if o["term"].startswith("deadlock") else "stepbound"
            # schedule length at the failure = number of steps of the recorded schedule (second varint of the encoding is opaque here): use the text itself as a proxy for equality
            ln = len(o["sched"]) * 7 % 1000 + (hash(o["sched"]) % 7 if False else 0)
            parts.append("%d.%s.%s.%d.0" % (t, "file" if r["persist"] == "cwd" else r["persist"], kind, ln))
        mcases.append("history " + ";".join(parts) if parts else None)
    mo = ctx.run_model("history", [m for m in mcases if m])
    mi = iter(mo)
    nv = 0
    replays = []
    from progcheck import known_ids
    known = known_ids("C12")
    stats = {"failing_runs": 0, "emissions": 0, "replayed": 0}
    for h, res, mc in zip(hists, results, mcases):
        model = next(mi).split(" ") if mc else None
        if len(h) > 1:
            ctx.note_nontrivial(str(h))
        for k, (r, o) in enumerate(zip(h, res)):
            why = None
            if o.get("abort"):
                why = "the process running the history died (rc=%s)" % o.get("rc")
            else:
                failing = o["term"] != "ok"
                nprint, nfile = len(o["printed"]), len(o["files"])
                want_p = 1 if failing and r["persist"] == "print" else 0
                want_f = 1 if failing and r["persist"] in ("file", "cwd") else 0
                if failing:
                    stats["failing_runs"] += 1
                    exp_payload = {"panic": "vpanic", "deadlock": "deadlock", "stepbound": "max_steps"}[o["term"].split(":")[0]]
                    if o["payload"] != exp_payload:
                        why = "the run failed with payload class %s, expected %s" % (o["payload"], exp_payload)
                # known finding F20: a task that panics while holding a lock guard reaches further scheduling points while
                # unwinding, so the schedule persisted by the panic hook is followed by a second, complete one
                emitted = o["printed"] + o["files"]
                if (not why and failing and o["term"].startswith("panic") and (nprint, nfile) == (2 * want_p, 2 * want_f) and (want_p or want_f)
                        and re.search(r"(lk|rd|wr)\d+;[^|]*pn", r["bodies"]) and "F20" in known
                        and emitted[-1].replace("|", "").strip() == o["sched"].replace("|", "")
                        and o["sched"].replace("|", "").startswith(emitted[0].replace("|", "").strip()[:4])):
                    ctx.known("F20", known["F20"]["what"])
                    replays.append(("replaytext %s %s %s %s" % (emitted[-1], r["ms"], r["objs"], r["bodies"]), o["term"], h, k))
                    continue
                if not why and (nprint != want_p or nfile != want_f):
                    why = "run %d (persistence=%s, %s) emitted %d printed schedule(s) and %d file(s); its own configuration prescribes %d and %d" % (k, r["persist"], o["term"], nprint, nfile, want_p, want_f)
                if not why and model is not None:
                    got = ("P" * nprint + "F" * nfile) or "-"
                    if got != model[k]:
                        why = "model (Engine/Failure.v) predicts %s, the crate emitted %s" % (model[k], got)
                if not why and failing and (nprint or nfile):
                    stats["emissions"] += 1
                    text = (o["printed"] + o["files"])[0]
                    if text.replace("|", "").strip() != o["sched"].replace("|", ""):
                        why = "the emitted schedule %s is not the schedule of the failing execution %s" % (text, o["sched"])
                    else:
                        replays.append(("replaytext %s %s %s %s" % (text, r["ms"], r["objs"], r["bodies"]), o["term"], h, k))
            if why:
                nv += 1
                if nv <= 5:
                    ctx.violation({"layer": "history", "history": h, "run": k, "observed": res, "why": why,
                                   "how_to_replay": "printf 'run ...' | build/harness-target/debug/vharness history <dir>  (one line per run: run <persist> <thread> <ms> <script> 1 <objs> <bodies>)"})
    # every emitted schedule must reproduce the failure
    ro = ctx.run_impl("prog", [x[0] for x in replays])
    for (c, term, h, k), o in zip(replays, ro):
        stats["replayed"] += 1
        if o != "T=" + term:
            nv += 1
            if nv <= 5:
                ctx.violation({"layer": "history", "history": h, "run": k, "cases": [c], "why": "replaying the emitted schedule gave %s, the failure was %s" % (o, term)})
    # the same under the real built-in schedulers, with programs that draw random data before they fail: the schedule of the
    # failing execution (through its printed form) must reproduce that execution event by event, the drawn values included
    import gen_prog
    fcases = []
    fails = ["sp1;rn;a0.add.1;rn;jn0;pn|rn;a0.add.2;rn", "rn;sp1;rn;pk;jn0|rn;pk", "sp1;rn;lk1;yd;rn;pn|rn;lk1;a0.add.1;ul1", "rn;rn;sp1;sp2;jn0;jn1;pn|rn;yd;rn|yd;rn;rn"]
    for i in range(24 if tier == "quick" else 240):
        kind = ["random", "pct", "urw", "random"][i % 4]
        fcases.append("replay %s %d %d %d none a0,m %s" % (kind, rng.getrandbits(64), rng.randint(1, 3), rng.choice([1, 3, 6]), fails[i % len(fails)]))
    # failures that depend on the schedule: the failing execution is usually not the first one of the run
    late = [("m,m,a0", "sp1;rn;lk0;yd;rn;lk1;ul1;ul0;jn0|rn;lk1;yd;rn;lk0;ul0;ul1"),
            ("m,v,a2", "sp1;rn;yd;lk0;rn;cn1;ul0;jn0|rn;lk0;rn;cw1.0;ul0"),        # lost notification: the waiter waits forever
            ("m,m,a0", "sp1;sp2;rn;jn0;jn1;rn|rn;lk0;a2.add.1;yd;lk1;ul1;ul0;rn|rn;a2.ld;lk1;rn;yd;lk0;ul0;ul1")]
    for i in range(36 if tier == "quick" else 400):
        kind = ["random", "pct", "urw", "random"][i % 4]
        objs, bodies = late[i % len(late)]
        fcases.append("replay %s %d %d %d none %s %s" % (kind, rng.getrandbits(64), rng.randint(1, 3), rng.choice([8, 16]), objs, bodies))
    fo = ctx.run_impl("prog", fcases)
    ctx.evaluations += len(fcases)
    nrep = nlate = 0
    for c, o in zip(fcases, fo):
        if o.endswith("ALLEQ") and " F=-" not in o:
            nrep += 1
            if not o.startswith("N=1 "):
                nlate += 1
        elif o.startswith("SKIP"):
            pass
        elif not o.endswith("ALLEQ"):
            nv += 1
            if nv <= 5:
                ctx.violation({"layer": "prog", "cases": [c], "implementation_answer": o[:2500],
                               "why": "the schedule of a failing execution under a built-in scheduler did not reproduce it (random data included)"})
    # ---- portfolio runs: fail exactly when a member does, with a member's own payload
    pprogs = [("m,m", "sp1;lk0;yd;lk1;ul1;ul0;jn0|lk1;yd;lk0;ul0;ul1"),       # deadlocks under some schedules only
              ("a0", "sp1;a0.add.1;jn0|a0.add.2"),                           # always passes
              ("a0", "sp1;a0.add.1;jn0;pn|a0.add.2"),                        # always panics
              ("m,v,a2", "sp1;yd;lk0;cn1;ul0;jn0|lk0;cw1.0;ul0"),             # lost notification under some schedules
              ("a0,m", "sp1;lk1;a0.add.1;ul1;jn0|lk1;a0.add.2;ul1")]
    def mem():
        k = rng.choice(["dfs", "rr", "random", "urw", "pct"])
        if k == "dfs":
            return "dfs.%d" % rng.choice([1, 2, 40])
        if k == "rr":
            return "rr.%d" % rng.choice([1, 3])
        if k == "pct":
            return "pct.%d.%d.%d" % (rng.getrandbits(40), rng.randint(1, 3), rng.choice([1, 4, 20]))
        return "%s.%d.%d" % (k, rng.getrandbits(40), rng.choice([1, 4, 20]))
    pcases = ["portfolio 0 dfs.40,rr.1 none m,m " + pprogs[0][1], "portfolio 0 rr.1,dfs.40 none m,m " + pprogs[0][1], "portfolio 1 dfs.40,rr.1 none m,m " + pprogs[0][1]]
    for i in range(40 if tier == "quick" else 400):
        objs, bodies = pprogs[i % len(pprogs)]
        pcases.append("portfolio %d %s none %s %s" % (rng.choice([0, 1]), ",".join(mem() for _ in range(rng.randint(1, 4))), objs, bodies))
    po = ctx.run_impl("prog", pcases)
    ctx.evaluations += len(pcases)
    pstat = {"portfolio_runs": len(pcases), "failed": 0, "mixed_members": 0}
    for c, o in zip(pcases, po):
        m = re.match(r"P=(\S+) M=(\S+)$", o)
        why = None
        if not m:
            why = "the portfolio run gave no answer"
        else:
            pr, mem_r = m.group(1), m.group(2).split(",")
            failing = [x for x in mem_r if x != "ok"]
            if failing:
                pstat["failed"] += 1
            if failing and len(failing) < len(mem_r):
                pstat["mixed_members"] += 1
                ctx.note_nontrivial(c)
            if bool(failing) != (pr != "ok"):
                why = "the portfolio run %s although its members alone gave %s" % ("passed" if pr == "ok" else "failed (%s)" % pr, mem_r)
            elif failing and pr not in failing:
                why = "the portfolio run failed with %s, which is not the failure of any of its members (%s)" % (pr, mem_r)
        if why:
            nv += 1
            if nv <= 8:
                ctx.violation({"layer": "prog", "cases": [c], "implementation_answer": o[:600], "why": why})
    # the model's PortfolioRunner (Engine/Failure.v portfolio_run, theorems C12_portfolio_*) on the members' outcomes: without
    # early stop the outcome of the portfolio is determined by them (payload of the failing member joined last)
    CLS = {"ok": 0, "vpanic": 1, "deadlock": 2, "max_steps": 3}
    pm, pmi = [], []
    for c, o in zip(pcases, po):
        m = re.match(r"P=(\S+) M=(\S+)$", o)
        if m and c.split(" ")[1] == "0":
            pm.append("portfolio 0 " + ",".join(str(CLS.get(x, 9)) for x in m.group(2).split(",")))
            pmi.append((c, o, CLS.get(m.group(1), 9)))
    pmo = ctx.run_model("history", pm)
    for (c, o, got), mc, mo_ in zip(pmi, pm, pmo):
        if mo_ != "P=%d" % got:
            nv += 1
            ctx.violation({"layer": "history", "cases": [c, mc], "implementation_answer": o[:600], "model_answer": mo_,
                           "why": "the model of PortfolioRunner::run (Engine/Failure.v) and the crate disagree on the outcome of a portfolio without early stop"})
    pstat["compared_with_model"] = len(pm)
    # the model's shutdown settings (ug_run / panic_result, theorems C12_shutdown_settings_are_own, C12_default_run_reraises_own):
    # for every panicking run of the histories, what the model says about the payload after the same earlier runs
    sm, smi = [], []
    for h, res in zip(hists, results):
        earlier, tid = [], 0
        for r, o in zip(h, res):
            t = 0
            if r["thread"] == "new":
                tid += 1
                t = tid
            ug = r.get("ug", "")
            if not o.get("abort") and o["term"].startswith("panic"):
                sw = 1 if re.search(r"(lk|rd|wr)\d+;[^|]*pn", r["bodies"]) else 0
                sm.append("shutdown %s %d %d %d %d" % (";".join(earlier) or "-", t, int("+e" in ug), int("+d" in ug), sw))
                smi.append((h, r, o))
            earlier.append("%d.%d.%d" % (t, int("+e" in ug), int("+d" in ug)))
    smo = ctx.run_model("history", sm)
    for (h, r, o), mc, mo_ in zip(smi, sm, smo):
        own = o["payload"] == "vpanic"
        if ("pay=own" in mo_) != own:
            nv += 1
            if nv <= 8:
                ctx.violation({"layer": "history", "history": h, "cases": [mc], "implementation_answer": o, "model_answer": mo_,
                               "why": "the model says the run re-raises %s, the crate re-raised payload class %s" % ("the task's own payload" if "pay=own" in mo_ else "the early-return payload", o["payload"])})
    pstat["panicking_runs_compared_with_shutdown_model"] = len(sm)
    stats.update(pstat)
    stats["failing_runs_replayed_with_random_data"] = nrep
    stats["of_which_failed_after_the_first_execution"] = nlate
    ctx.cov["history_stats"] = stats
    ctx.cov["rule"] = ("histories of 1-5 configured runs (persistence none / print / file in a given directory / file in the current directory, same or new thread; deadlocks, panics in main / in a spawned thread / while holding a lock, exceeded FailAfter bounds, passing and stopped runs) "
                       "executed in ONE fresh process each; stderr is attributed to runs by markers, files by directory listing; each run must emit exactly what its own configuration prescribes; "
                       "every emitted schedule is parsed and replayed. non-trivial = histories with more than one run")
    ctx.sample({"history": hists[0], "observed": results[0]})
    ctx.sample({"history": hists[5], "observed": results[5]})
    ctx.log("histories: %d, %s" % (len(hists), stats))
    # a failing execution persists its schedule whatever the earlier executions of the run did: executions that raised a panic
    # and handled it themselves (catch_unwind, outside the program language) when their schedule had the same length
    probes = ["probe caughtpanic 0", "probe caughtpanic 1", "probe caughtpanic 4"]
    po = ctx.run_impl("prog", probes)
    ctx.evaluations += len(probes)
    for c_, o_ in zip(probes, po):
        f_ = dict(x.split("=") for x in o_.split(" ")[1:] if "=" in x) if o_.startswith("PROBE") else {}
        if f_.get("failed") != "1" or int(f_.get("files_during_failing_execution", "0")) < 1:
            ctx.violation({"layer": "prog", "cases": [c_], "implementation_answer": o_[:300],
                           "why": "execution %s of a run fails but no schedule is persisted for it, although the same execution persists one when it runs first: state of the failure report leaks from earlier executions (handled panics at the same schedule length)" % c_.split(" ")[-1]})
    ctx.dist("probes.caughtpanic", len(probes))
    return ctx.finish()
