#!/bin/sh
# usage: one.sh '<case line>'  -- runs one case of the prog layer on the extracted model and on the harness (development helper)
echo "$1" | /verif/build/vmodel prog | cut -c1-${2:-1500}; echo "$1" | /verif/build/harness-target/debug/vharness prog 2>/dev/null | cut -c1-${2:-1500}
