#!/bin/sh
# usage: seedrun.sh <patch.diff> <ID> [<ID>...]   -- applies a seeded change to /repo, runs the quick checks, reverts.
# (development helper; never leaves /repo modified)
patch=$1; shift
cd /repo || exit 2
test -z "$(git status --porcelain)" || { echo "/repo not clean"; exit 2; }
git apply "$patch" || { echo "PATCH DOES NOT APPLY"; exit 2; }
for id in "$@"; do
  echo "== $id on $(basename $(dirname $patch))"
  /verif/bin/check $id quick 2>&1 | grep -E "VIOLATION|KNOWN|done:|mismatch" | cut -c1-300 | head -12
done
git -C /repo checkout -- . ; git -C /repo clean -fdq
# restore evidence to the unchanged-tree state is the caller's job (re-run checks)
