"""C09 — DFS visits every schedule exactly once and then stops."""
from common import Ctx
import gen_prog

PROPS = "Props/C09.v"


def gen_tree(rng, depth, maxar, budget):
    """random irregular tree: returns nested list [(id, subtree), ...]"""
    if depth == 0 or budget[0] <= 0:
        return []
    shape = rng.random()
    if shape < 0.15:
        ar = 0
    elif shape < 0.4:
        ar = 1
    else:
        ar = rng.randint(1, maxar)
    ids = sorted(rng.sample(range(0, 7), min(ar, 7)))
    kids = []
    for j, i in enumerate(ids):
        budget[0] -= 1
        # sometimes make the last sibling deeper than the others, sometimes shallower
        d = depth - 1
        if j == len(ids) - 1 and rng.random() < 0.3:
            d = depth + 1 if rng.random() < 0.5 else max(0, depth - 3)
        kids.append((i, gen_tree(rng, min(d, 9), maxar, budget)))
    return kids


def show_tree(t):
    return "[" + "".join("%d%s" % (i, show_tree(s)) for i, s in t) + "]"


def leaves(t):
    if not t:
        return [[]]
    out = []
    for i, s in t:
        for p in leaves(s):
            out.append([i] + p)
    return out


def truncate(t, n):
    if n == 0:
        return []
    return [(i, truncate(s, n - 1)) for i, s in t]


def depth(t):
    return 0 if not t else 1 + max(depth(s) for _, s in t)


def show_paths(ps):
    return "|".join(".".join(map(str, p)) if p else "e" for p in ps)


def run(tier):
    ctx = Ctx("C09", tier)
    rng = ctx.rng
    ctx.gen_params()
    ctx.proof_gate(PROPS)
    if not (ctx.build_model() and ctx.build_harness()):
        return ctx.finish()
    ntrees = 250 if tier == "quick" else 2500
    cases, expect = [], []
    for k in range(ntrees):
        while True:
            t = gen_tree(rng, rng.randint(1, 7), rng.randint(1, 4), [rng.choice([20, 200, 1500])])
            L = leaves(t)
            if len(L) <= 4000:
                break
        d = depth(t)
        ts = show_tree(t)
        variants = [("-", "-")]
        for _ in range(3):
            mi = rng.choice(["-", "0", "1", "2", str(max(0, len(L) - 1)), str(len(L)), str(len(L) + 1), str(rng.randint(0, len(L) + 2))])
            b = rng.choice(["-", "-", "0", "1", "2", str(max(0, d - 1)), str(d), str(d + 1)])
            variants.append((mi, b))
        for mi, b in variants:
            cases.append("dfs %s %s %s" % (mi, b, ts))
            tt = t if b == "-" else truncate(t, int(b))
            LL = leaves(tt)
            # distinct choice prefixes: truncation can merge nothing (prefix trees have distinct root-to-leaf paths)
            if mi != "-":
                LL = LL[:int(mi)]
            expect.append("P " + show_paths(LL))
            ctx.dist("dfs.leaves<=1" if len(L) <= 1 else "dfs.leaves<=20" if len(L) <= 20 else "dfs.leaves>20")
            if len(L) > 1:
                ctx.note_nontrivial(cases[-1])
    mo, io, mism = ctx.differential("sched", cases)
    ctx.log("dfs trees: %d cases, %d model/impl mismatches" % (len(cases), len(mism)))
    nfail = 0
    for k, c in enumerate(cases):
        if io[k] != expect[k]:
            nfail += 1
            if nfail <= 3:
                ctx.violation({"layer": "sched", "cases": [c], "implementation_answer": io[k][:2000], "expected": expect[k][:2000], "model_answer": mo[k][:2000],
                               "why": "the real DfsScheduler did not execute exactly the root-to-leaf choice sequences of the tree, each once, in order (or did not stop)"})
    # DFS through the real runtime on programs: model engine + model DFS vs Runner + DfsScheduler.
    # Each program is first enumerated without bound (on the model) to learn its longest schedule L and its number
    # of schedules; it is then run under every ContinueAfter bound 1..L+1, FailAfter bounds around L, and
    # iteration bounds around the number of schedules.
    progs = []
    for k in range(70 if tier == "quick" else 600):
        shape = rng.random()
        if shape < 0.5:
            # main spawns two short children: the shape whose tree has the most irregular branching
            feats = ("yield", "atomic", "park")
            objs, bodies = gen_prog.gen_program(rng, max_bodies=1, max_ops=2, features=feats)
            objl = objs.split(",")
            kids = []
            for _ in range(2):
                _, b = gen_prog.gen_program(rng, max_bodies=1, max_ops=rng.choice([1, 2, 3]), features=("yield", "atomic", "park"))
                kids.append(b)
            main = "sp1;sp2" + (";" + bodies if bodies != "-" else "") + rng.choice(["", ";jn0", ";jn0;jn1", ";jn1"])
            bodies = main + "|" + "|".join(kids)
            # object indices used by the children must exist: children only use atomics a0..a(n-1) generated with their own object lists; normalise to a single atomic
            import re
            bodies = re.sub(r"a\d+\.", "a0.", bodies)
            objs = ",".join(objl)
        else:
            objs, bodies = gen_prog.gen_program(rng, max_bodies=3, max_ops=rng.choice([2, 3, 4]), features=("spawn", "spawn", "join", "yield", "park", "atomic", "mutex"))
        progs.append((objs, bodies))
    base = ["progdfs none - 0 %s %s" % pb for pb in progs]
    bmo = ctx.run_model("prog", base)
    pcases = []
    for (objs, bodies), line in zip(progs, bmo):
        scheds = [x.split(":R=")[0].split("S=")[1] for x in line.split(" | ") if "S=" in x]
        if not scheds:
            continue
        L = max(len([t for t in s_.split(",") if t]) for s_ in scheds)
        nsch = len(scheds)
        pcases.append("progdfs none - 0 %s %s" % (objs, bodies))
        if nsch > 400:
            continue
        for n in range(1, min(L, 14) + 2):
            pcases.append("progdfs cont:%d - 0 %s %s" % (n, objs, bodies))
        for n in (L - 1, L, L + 1):
            if n >= 1:
                pcases.append("progdfs fail:%d - 0 %s %s" % (n, objs, bodies))
        for mi in sorted(set([0, 1, 2, nsch - 1, nsch, nsch + 1])):
            if mi >= 0:
                pcases.append("progdfs none %d 0 %s %s" % (mi, objs, bodies))
    # random data under DFS: every execution must see the same fixed stream, also past 64 draws
    for k in range(12 if tier == "quick" else 80):
        nd = rng.choice([1, 3, 10, 63, 64, 65, 66, 70, 130])
        second = rng.choice(["rn;a0.add.1", "a0.add.1;rn;rn", "yd;rn"])
        pcases.append("progdfs none %s 1 a0 sp1;%s;jn0|%s" % (rng.choice(["-", "3", "5"]), ";".join(["rn"] * nd), second))
        pcases.append("progdfs none 4 1 a0 sp1;%s|%s" % (second, ";".join(["rn"] * nd)))
    pmo, pio, pmism = ctx.differential("prog", pcases)
    ctx.log("check_dfs on programs: %d cases (%d programs x bounds), %d model/impl mismatches" % (len(pcases), len(progs), len(pmism)))
    unb = {}
    for k, c in enumerate(pcases):
        line = pio[k]
        w = c.split(" ")
        items = [x for x in line.split(" | ") if "S=" in x]
        scheds = [x.split(":R=")[0].split("S=")[1] for x in items]
        draws = [x.split(":R=")[1].split(":T=")[0] for x in items]
        n = len(scheds)
        ctx.dist("progdfs.iters=1" if n <= 1 else "progdfs.iters<=10" if n <= 10 else "progdfs.iters>10")
        if n > 1:
            ctx.note_nontrivial(c)
        key = (w[4], w[5])
        bad = None
        if len(set(scheds)) != len(scheds):
            bad = "check_dfs executed the same schedule twice"
        # every execution uses the same fixed random-data stream: the draw lists are prefixes of one another
        if not bad and w[3] == "1":
            longest = max(draws, key=len) if draws else ""
            for d in draws:
                if not (longest == d or longest.startswith(d + ".") or d == ""):
                    bad = "two executions of one DFS run saw different random-data streams"
                    break
        if w[1] == "none" and w[2] == "-" and not line.startswith("N=fail"):
            unb[key] = scheds
            # the verified model's DFS over the same program enumerates every leaf of the choice tree exactly once (C09 theorems
            # over Sched/Dfs.v, script completeness of the engine): a leaf it visits and the crate does not is a schedule never visited
            mitems = [x for x in pmo[k].split(" | ") if "S=" in x]
            msch = [x.split(":R=")[0].split("S=")[1] for x in mitems]
            if not bad and not pmo[k].startswith("N=fail") and len(msch) < 2900:
                lost = [x for x in msch if x not in set(scheds)]
                if lost:
                    bad = "check_dfs never visits %d of the %d schedules of this program (first: %s)" % (len(lost), len(msch), lost[0])
        if bad:
            nfail += 1
            if nfail <= 6:
                ctx.violation({"layer": "prog", "cases": [c], "implementation_answer": line[:3000], "model_answer": pmo[k][:3000], "why": bad})
    # bound oracles against the implementation's own unbounded enumeration
    for k, c in enumerate(pcases):
        w = c.split(" ")
        key = (w[4], w[5])
        if key not in unb or pio[k].startswith("N=fail"):
            continue
        full = unb[key]
        items = [x for x in pio[k].split(" | ") if "S=" in x]
        scheds = [x.split(":R=")[0].split("S=")[1] for x in items]
        bad = None
        if w[1].startswith("cont:") and w[2] == "-":
            n = int(w[1][5:])
            want = []
            for s_ in full:
                pre = ",".join(s_.split(",")[:n])
                if pre not in want:
                    want.append(pre)
            if scheds != want:
                bad = "ContinueAfter(%d): executed choice prefixes %s, the distinct prefixes of that length are %s" % (n, scheds[:20], want[:20])
        elif w[1] == "none" and w[2] != "-":
            mi = int(w[2])
            if scheds != full[:mi]:
                bad = "iteration bound %d: executed %d schedules, expected the first %d of %d" % (mi, len(scheds), min(mi, len(full)), len(full))
        if bad:
            nfail += 1
            if nfail <= 6:
                ctx.violation({"layer": "prog", "cases": [c, "progdfs none - 0 %s %s" % key], "implementation_answer": pio[k][:3000], "model_answer": pmo[k][:3000], "why": bad})
    ctx.disagreements_checked = len(mism) + len(pmism)
    if mism or pmism:
        ex = [{"case": cases[i], "model": mo[i][:500], "impl": io[i][:500]} for i in mism[:3]] + [{"case": pcases[i], "model": pmo[i][:500], "impl": pio[i][:500]} for i in pmism[:3]]
        ctx.broken.append({"kind": "correspondence", "layer": "sched/prog", "what": "Sched/Dfs.v (theorems C09_*) and dfs.rs / the runtime disagree on %d cases" % (len(mism) + len(pmism)), "examples": ex})
    ctx.cov["rule"] = ("random irregular choice trees (arity 0-4, depth up to 9, deeper or shallower last siblings, chains; up to 4000 leaves) walked by the real DfsScheduler and by the model, "
                       "with iteration bounds around the leaf count and step bounds around the depth; expected paths computed independently (leaves / firstn / truncate); "
                       "plus small programs under Runner+DfsScheduler vs model engine+model DFS. non-trivial = more than one leaf / more than one execution")
    ctx.sample({"case": cases[1], "expected": expect[1][:300]})
    ctx.sample({"case": pcases[1], "impl": pio[1][:300]})
    return ctx.finish()
