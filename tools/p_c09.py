"""C09 — DFS visits every schedule exactly once and then stops."""
from common import Ctx
import gen_prog

PROPS = "Props/C09.v"


def gen_tree(rng, depth, maxar, budget):
    """random irregular tree: returns nested list [(id, subtree), ...]"""
    if depth == 0 or budget[0] <= 0:
        return []
    shape = rng.random()
    if shape < 0.15:
        ar = 0
    elif shape < 0.4:
        ar = 1
    else:
        ar = rng.randint(1, maxar)
    ids = sorted(rng.sample(range(0, 7), min(ar, 7)))
    kids = []
    for j, i in enumerate(ids):
        budget[0] -= 1
        # sometimes make the last sibling deeper than the others, sometimes shallower
        d = depth - 1
        if j == len(ids) - 1 and rng.random() < 0.3:
            d = depth + 1 if rng.random() < 0.5 else max(0, depth - 3)
        kids.append((i, gen_tree(rng, min(d, 9), maxar, budget)))
    return kids


def show_tree(t):
    return "[" + "".join("%d%s" % (i, show_tree(s)) for i, s in t) + "]"


def leaves(t):
    if not t:
        return [[]]
    out = []
    for i, s in t:
        for p in leaves(s):
            out.append([i] + p)
    return out


def truncate(t, n):
    if n == 0:
        return []
    return [(i, truncate(s, n - 1)) for i, s in t]


def depth(t):
    return 0 if not t else 1 + max(depth(s) for _, s in t)


def show_paths(ps):
    return "|".join(".".join(map(str, p)) if p else "e" for p in ps)


def run(tier):
    ctx = Ctx("C09", tier)
    rng = ctx.rng
    ctx.gen_params()
    ctx.proof_gate(PROPS)
    if not (ctx.build_model() and ctx.build_harness()):
        return ctx.finish()
    ntrees = 250 if tier == "quick" else 2500
    cases, expect = [], []
    for k in range(ntrees):
        while True:
            t = gen_tree(rng, rng.randint(1, 7), rng.randint(1, 4), [rng.choice([20, 200, 1500])])
            L = leaves(t)
            if len(L) <= 4000:
                break
        d = depth(t)
        ts = show_tree(t)
        variants = [("-", "-")]
        for _ in range(3):
            mi = rng.choice(["-", "0", "1", "2", str(max(0, len(L) - 1)), str(len(L)), str(len(L) + 1), str(rng.randint(0, len(L) + 2))])
            b = rng.choice(["-", "-", "0", "1", "2", str(max(0, d - 1)), str(d), str(d + 1)])
            variants.append((mi, b))
        for mi, b in variants:
            cases.append("dfs %s %s %s" % (mi, b, ts))
            tt = t if b == "-" else truncate(t, int(b))
            LL = leaves(tt)
            # distinct choice prefixes: truncation can merge nothing (prefix trees have distinct root-to-leaf paths)
            if mi != "-":
                LL = LL[:int(mi)]
            expect.append("P " + show_paths(LL))
            ctx.dist("dfs.leaves<=1" if len(L) <= 1 else "dfs.leaves<=20" if len(L) <= 20 else "dfs.leaves>20")
            if len(L) > 1:
                ctx.note_nontrivial(cases[-1])
    mo, io, mism = ctx.differential("sched", cases)
    ctx.log("dfs trees: %d cases, %d model/impl mismatches" % (len(cases), len(mism)))
    nfail = 0
    for k, c in enumerate(cases):
        if io[k] != expect[k]:
            nfail += 1
            if nfail <= 3:
                ctx.violation({"layer": "sched", "cases": [c], "implementation_answer": io[k][:2000], "expected": expect[k][:2000], "model_answer": mo[k][:2000],
                               "why": "the real DfsScheduler did not execute exactly the root-to-leaf choice sequences of the tree, each once, in order (or did not stop)"})
    # DFS through the real runtime on programs: model engine + model DFS vs Runner + DfsScheduler
    pcases = []
    for k in range(300 if tier == "quick" else 3000):
        objs, bodies = gen_prog.gen_program(rng, max_bodies=3, max_ops=rng.choice([2, 3, 4]), features=("spawn", "spawn", "join", "yield", "park", "atomic", "reset"))
        ms = rng.choice(["none", "none", "none", "cont:%d" % rng.randint(1, 9), "fail:%d" % rng.randint(4, 14)])
        pcases.append("progdfs %s %s %s %s" % (ms, rng.choice(["-", "-", "-", "1", "3", "10"]), objs, bodies))
    pmo, pio, pmism = ctx.differential("prog", pcases)
    ctx.log("check_dfs on programs: %d cases, %d model/impl mismatches" % (len(pcases), len(pmism)))
    for k, c in enumerate(pcases):
        line = pio[k]
        scheds = [x.split(":T=")[0] for x in line.split(" | ")] if " " in line else []
        scheds = [s.split("S=")[1] for s in scheds if "S=" in s]
        n = len(scheds)
        ctx.dist("progdfs.iters=1" if n <= 1 else "progdfs.iters<=10" if n <= 10 else "progdfs.iters>10")
        if n > 1:
            ctx.note_nontrivial(c)
        # oracle: no schedule repeated (exactly once)
        if len(set(scheds)) != len(scheds):
            nfail += 1
            ctx.violation({"layer": "prog", "cases": [c], "implementation_answer": line[:3000], "why": "check_dfs executed the same schedule twice"})
    ctx.disagreements_checked = len(mism) + len(pmism)
    if mism or pmism:
        ex = [{"case": cases[i], "model": mo[i][:500], "impl": io[i][:500]} for i in mism[:3]] + [{"case": pcases[i], "model": pmo[i][:500], "impl": pio[i][:500]} for i in pmism[:3]]
        ctx.broken.append({"kind": "correspondence", "layer": "sched/prog", "what": "Sched/Dfs.v (theorems C09_*) and dfs.rs / the runtime disagree on %d cases" % (len(mism) + len(pmism)), "examples": ex})
    ctx.cov["rule"] = ("random irregular choice trees (arity 0-4, depth up to 9, deeper or shallower last siblings, chains; up to 4000 leaves) walked by the real DfsScheduler and by the model, "
                       "with iteration bounds around the leaf count and step bounds around the depth; expected paths computed independently (leaves / firstn / truncate); "
                       "plus small programs under Runner+DfsScheduler vs model engine+model DFS. non-trivial = more than one leaf / more than one execution")
    ctx.sample({"case": cases[1], "expected": expect[1][:300]})
    ctx.sample({"case": pcases[0], "impl": pio[0][:300]})
    return ctx.finish()
