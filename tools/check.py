#!/usr/bin/env python3
import importlib, json, os, sys
sys.path.insert(0, os.path.dirname(os.path.abspath(__file__)))


def main():
    if len(sys.argv) < 2:
        print("usage: check <ID> [quick|thorough] | check <ID> --replay <file>")
        return 2
    prop = sys.argv[1].upper()
    mod = importlib.import_module("p_" + prop.lower())
    if len(sys.argv) >= 4 and sys.argv[2] == "--replay":
        return replay(prop, mod, sys.argv[3])
    tier = sys.argv[2] if len(sys.argv) > 2 else os.environ.get("VERIF_TIER", "quick")
    if tier not in ("quick", "thorough"):
        tier = "quick"
    try:
        return mod.run(tier)
    except Exception:
        # an answer of the implementation (or of the model) that the orchestrator cannot even parse: the property is no
        # longer shown to hold on this tree; the traceback is the replay
        import traceback
        from common import BUILD
        tb = traceback.format_exc()
        os.makedirs(os.path.join(BUILD, "replays"), exist_ok=True)
        path = os.path.join(BUILD, "replays", "%s-%s-crash.json" % (prop, tier))
        json.dump({"property": prop, "kind": "obligation-or-correspondence-broken",
                   "broken": [{"kind": "orchestrator", "what": "the check could not be completed on this tree", "detail": tb[-4000:]}],
                   "note": "no concrete failing input was found by the search; the property is no longer shown to hold"}, open(path, "w"), indent=1)
        print(tb, file=sys.stderr)
        print("VIOLATION property=%s replay=%s no-failing-input-found" % (prop, path), flush=True)
        return 1


def replay(prop, mod, path):
    """Re-runs the cases of a replay file on model and implementation and prints both answers."""
    from common import Ctx
    r = json.load(open(path))
    print(json.dumps({k: v for k, v in r.items() if k != "cases"}, indent=1))
    if hasattr(mod, "replay"):
        return mod.replay(r)
    if "cases" in r and "layer" in r:
        ctx = Ctx(prop, "quick")
        ctx.gen_params()
        if not (ctx.build_model() and ctx.build_harness()):
            print(ctx.broken)
            return 2
        mo, io, mism = ctx.differential(r["layer"], r["cases"])
        for c, m, i in zip(r["cases"], mo, io):
            print("case : %s\nmodel: %s\nimpl : %s\n" % (c, m, i))
    return 0


if __name__ == "__main__":
    sys.exit(main())
