#!/usr/bin/env python3
import importlib, json, os, sys
sys.path.insert(0, os.path.dirname(os.path.abspath(__file__)))


def main():
    if len(sys.argv) < 2:
        print("usage: check <ID> [quick|thorough] | check <ID> --replay <file>")
        return 2
    prop = sys.argv[1].upper()
    mod = importlib.import_module("p_" + prop.lower())
    if len(sys.argv) >= 4 and sys.argv[2] == "--replay":
        return replay(prop, mod, sys.argv[3])
    tier = sys.argv[2] if len(sys.argv) > 2 else os.environ.get("VERIF_TIER", "quick")
    if tier not in ("quick", "thorough"):
        tier = "quick"
    return mod.run(tier)


def replay(prop, mod, path):
    """Re-runs the cases of a replay file on model and implementation and prints both answers."""
    from common import Ctx
    r = json.load(open(path))
    print(json.dumps({k: v for k, v in r.items() if k != "cases"}, indent=1))
    if hasattr(mod, "replay"):
        return mod.replay(r)
    if "cases" in r and "layer" in r:
        ctx = Ctx(prop, "quick")
        ctx.gen_params()
        if not (ctx.build_model() and ctx.build_harness()):
            print(ctx.broken)
            return 2
        mo, io, mism = ctx.differential(r["layer"], r["cases"])
        for c, m, i in zip(r["cases"], mo, io):
            print("case : %s\nmodel: %s\nimpl : %s\n" % (c, m, i))
    return 0


if __name__ == "__main__":
    sys.exit(main())
