"""C19 — the tokio-compatible primitives keep tokio's documented contracts."""
import os
from common import Ctx, ROOT, load_known_findings
import gen_tok
import toklayer
from proglayer import parse_trace, parse_case

PROPS = "Props/C19.v"
RULE = ("C19: programs over the tokio-compatible mpsc (bounded/unbounded: send, blocking_send, try_send, recv, blocking_recv, try_recv, close, drops, len/capacity), "
        "Semaphore (acquire_many, try_acquire_many, add_permits, forget, close; SemaphorePermit::merge / split / num_permits), Mutex, RwLock (with_max_readers, RwLockWriteGuard::downgrade), Notify (notified, enable, await, drop, notify_one, notify_waiters), oneshot, OnceCell (set, get, get_or_init, get_or_try_init with initialisers that yield) and watch (send, send_modify / send_if_modified, send_replace, borrow, borrow_and_update, has_changed, changed, wait_for, subscribe, closed, is_closed / receiver_count, drops of both sides; Sender and Receiver clones), "
        "run by threads (block_on / blocking_*) and by tokio::spawn-ed futures (bodies with an odd index go through the _owned variant of every acquisition: acquire_many_owned, try_acquire_many_owned, lock_owned, try_lock_owned, read_owned, write_owned, try_read_owned, try_write_owned, the owned guards' downgrade / merge / split / forget), each on the real crates under a scripted scheduler and on the extracted Coq model (Lang/Tok.v): decisions "
        "(offered, current, yielding, choice), draws, per-operation results, vector clocks, termination and recorded schedule compared.  Oracles on the crate's own traces: FIFO exactly-once delivery, "
        "no value lost before a None, capacity never exceeded, Full only when full, len+capacity=bound at rest, permits held never exceed permits existing (exclusion for locks), and every deadlock "
        "re-judged against reference semantics of the tokio contracts (channel buffer, permit counts, Notify by counting; watch: a borrow returns the latest value, has_changed / changed report exactly the sends since the receiver's last look, closure only once every sender is gone, no change notification lost at a deadlock).  Every 6th program is wild (dead endpoints, nothing held, zero permits, capacity 0).")

# directed cases: the witnesses of the findings first (C19-F1, F2, F5, F6 are repaired in /repo: regressions, expected to pass;
# C19-F3, F4 still known), then regressions of each primitive
CORPUS = [
    "tok none - 1 cB1:1 bs0.0.7;br0;bs0.0.8",
    "tok none - 1 cB2:1 bs0.0.1;bs0.0.2;br0;br0;ci0;ts0.0.3",
    "tok none - 1 cB1:1 bs0.0.7;rc0;bs0.0.8;ci0",
    "tok none - 1 cB1:1 ts0.0.1;tr0;ts0.0.2;ci0",
    "tok none - 1 s1 ta0.0",
    "tok none - 1 s1 ac0.0",
    "tok none - 1 s1 sc0;ta0.0;ac0.0",
    "tok none - 1 s1 st1;jt0|ac0.0;si0",
    "tok none - 1 s1 st1;jt0|ta0.0;si0",
    "tok none - 1 s1 st1;jt0|sc0;ac0.0;ta0.0",
    "tok none - 1 s2 ac0.0;ta0.0;si0;rl0;rl0;si0",
    "tok none - 1 n nf0;en0;no0;dn0;nf0;an1",
    "tok none - 1 n no0;na0;nf0;an0",
    "tok none - 1 n no0;nf0;an0",
    "tok none - 1 n no0;no0;nf0;an0;nf0;en1",
    "tok none - 1 n,o sa1;nf0;an0;aw0;or1|no0;os1.9",
    "tok none 1,0,1,1,0 1 n,m,w2 sa1;sa2;nf0;nf0;en0;en1;na0;an1;an0;aw0;aw1|lk1;rd2;yd;rl2;wr2|lk1;rd2;yd;rl2;wr2",
    "tok none - 1 cU:2,s2 st1;rc0;rc0;jt0|bs0.0.5;bs0.1.6;ac1.2;si1",
    "tok none 1,1,0,1 1 cB1:2 st1;sa2;rc0;rc0;rc0;jt0;aw0|bs0.0.1;bs0.0.2;dt0.0|sd0.1.3;dt0.1",
    "tok none 0,1,1,0,1,0 1 cB2:1 sa1;sd0.0.1;sd0.0.2;sd0.0.3;dt0.0;aw0|rc0;rc0;rc0;rc0",
    "tok none 1,0,1 1 s2,m sa1;sa2;ac0.2;lk1;rl1;rl0;aw0;aw1|ac0.1;lk1;si0|ac0.1;lk1;si0",
    "tok none - 1 s1 ac0.1;fg0;si0;ad0.1;si0;sc0;ac0.1;ta0.1",
    "tok none 1,1 1 o,o sa1;or0;ot1;aw0|os0.4;ox1",
    "tok none 1,0,0,1 1 cB1:1 sa1;cr0;rc0;rc0;aw0|sd0.0.1;sd0.0.2;sd0.0.3",
    "tok none 0,1 1 cU:1 sa1;dr0;aw0|bs0.0.1;bs0.0.2",
    "tok none 0,0,1,1,1,1,1 1 s1 sa1;sa2;yd|ac0.3|ac0.1",
    "tok none 1,0,1,0,1 1 w2 sa1;wr0;dg0;yd;rl0;aw0|rd0;tW0;rl0;wr0",
    "tok none - 1 x xg0;xs0.5;xg0;xs0.6;xi0.7.1;xg0",
    "tok none 1,0,1,1,0,1,0,0,1,1 1 x sa1;st2;xi0.5.2;xg0;aw0;jt0|xi0.6.1;xs0.9|xt0.7.1.0;xg0;xi0.8.0",
    "tok none 0,1,1,0,1,0,1,1,0,0,1,0,1 1 x sa1;sa2;xt0.5.2.0;xg0;aw0;aw1|xi0.6.1;xs0.9|xs0.7;xg0;xi0.8.0",
    "tok none 1,0,1,0,1 1 s3 sa1;ac0.3;sp0.1;rl0;sp0.5;mg0;rl0;aw0|ac0.2;ac0.1;mg0;si0;rl0",
    # watch: every method once; receivers in a thread and in a task; subscribe after the last receiver left; closed()
    "tok none - 1 h5:1:1 ws0.0.7;wb0.0;wc0.0;wh0.0;wx0.0;wc0.0;wh0.0",
    "tok none 1,0,1,1,0,1,0,1,1,0,0,1 1 h5:1:2 st1;sa2;ws0.0.7;wp0.0.9;wm0.0.11.0;wm0.0.12.1;wi0.0;wx0.0;jt0;aw0|wc0.0;wu0.0;wf0.0.12;wc0.0;wy0.0|wh0.1;wc0.1;wb0.1;wc0.1;wc0.1",
    "tok none 1,1,1,0,1,0,1,1,0,0,1 1 h0:1:1 st1;wl0.0;wn0.0.1;wb0.1;jt0|wb0.0;yd;wy0.0",
    "tok none 0,1,0,1,1,0,0,1,1,1,0,1,0 1 h0:2:3 sa1;sa2;sa3;ws0.0.1;ws0.1.2;wx0.0;wx0.1;aw0;aw1;aw2|wc0.0;wc0.0;wc0.0|wf0.1.2;wc0.1|wu0.2;wh0.2;wc0.2;wc0.2;wc0.2",
    "tok none 1,0,0,1,0,1,1,0,1 1 h0:1:1 sa1;wc0.0;wc0.0;wc0.0;aw0|ws0.0.1;yd;ws0.0.2;wx0.0",
    # a channel without receivers is re-opened by subscribe while another handle of the sender is inside send_replace:
    # the subscriber looks at the old value, then must be told of the new one (seeded change C19-4)
    "tok none 0,0,0,0,0,0,3,1,1,1,1,0,0,0,2,0,3,1,1 248921663 h0:2:1 st1;sa2;wy0.0;jt0;aw0|wp0.0.2;wp0.0.3|wn0.1.1;wu0.1;wh0.1;wc0.1;wx0.1",
    "tok none 0,0,0,1,1,0,1,0,1,1,0,0,1,0,1 7 h0:2:1 wy0.0;st1;st2;jt0;jt1|wp0.0.5|wn0.1.1;wu0.1;wc0.1;wu0.1",
    "tok none 0,0,0,1,0,1,1,0,1,1,0,0,1,0,1 7 h0:2:1 wy0.0;st1;sa2;jt0;aw0|wp0.0.5|wn0.1.1;wf0.1.5",
]
DFS_CASES = [
    ("tokdfs 0 100 n sa1;nf0;an0;aw0|no0", "C19-F4"),
    ("tokdfs 1 100 n sa1;nf0;an0;aw0|no0", None),
]


def known_ids():
    return {k["id"]: k for k in load_known_findings() if k.get("kind") == "known" and "C19" in k.get("properties", [k.get("property")])}


def is_f6(impl_line, model_line, case):
    """The process aborted in the clean-up of an execution that the model ends normally while at least two tasks are
    still queued on one semaphore / RwLock (the class of C19-F6)."""
    if not (impl_line or "").startswith("ABORT") or ("AlreadyBorrowed" not in impl_line and "non-unwinding" not in impl_line):
        return False
    tr = parse_trace(model_line or "")
    if tr is None or tr[1] != "ok":
        return False
    att = toklayer.attribute(tr[0], parse_case(case))
    if att is None:
        return False
    pend = [r for r in att[0] if r.done is None and r.pre in ("ac", "rd", "wr", "lk")]
    objs = {}
    for r in pend:
        objs.setdefault(r.args[0], []).append(r)
    return any(len(v) >= 2 for v in objs.values())


def run(tier):
    ctx = Ctx("C19", tier)
    rng = ctx.rng
    ctx.gen_params()
    ctx.proof_gate(PROPS)
    if not (ctx.build_model() and ctx.build_harness()):
        return ctx.finish()
    n = 3900 if tier == "quick" else 56000
    cases = list(CORPUS)
    focuses = ["mix", "mix", "mpsc", "mpsc", "sem", "lock", "notify", "notify", "oneshot", "watch", "watch", "watchre", "oncecell"]
    for i in range(n):
        wild = (i % 6 == 0)
        fo = focuses[i % len(focuses)]
        c = gen_tok.gen_case(rng, focus=fo, wild=wild)
        ctx.dist("generated.%s%s" % (fo, ".wild" if wild else ""))
        cases.append(c)
    bad_static = [c for c in cases if not gen_tok.static_ok(c)]
    if bad_static:
        ctx.broken.append({"kind": "generator", "what": "a generated case breaks the endpoint-ownership discipline", "examples": bad_static[:3]})
        cases = [c for c in cases if gen_tok.static_ok(c)]
    ctx.dist("corpus", len(CORPUS))
    mo, io, mism = ctx.differential("tok", cases)
    ctx.log("tok layer: %d cases (%d corpus), %d model/impl mismatches" % (len(cases), len(CORPUS), len(mism)))
    known = known_ids()
    f6 = set()
    nviol = 0
    terms = {}
    for k, c in enumerate(cases):
        tr = parse_trace(io[k])
        if tr is None and is_f6(io[k], mo[k], c):
            f6.add(k)
            if "C19-F6" in known:
                ctx.known("C19-F6", known["C19-F6"]["what"])
                continue
        if tr is None:
            nviol += 1
            if nviol <= 4:
                ctx.violation({"layer": "tok", "cases": [c], "implementation_answer": io[k][:500], "model_answer": (mo[k] or "")[:500],
                               "why": "the implementation aborted or produced no trace on this program"})
            continue
        evs, term, sched = tr
        cs = parse_case(c)
        tk = term.split(":")[0]
        terms[tk] = terms.get(tk, 0) + 1
        if any(e.kind == "D" and len(e.offered) > 1 for e in evs):
            ctx.note_nontrivial(c)
        if tk in ("stepbound", "harness"):
            continue
        for msg, tag in toklayer.oracle_tok(evs, term, cs):
            if tag and tag in known:
                ctx.known(tag, known[tag]["what"])
                continue
            nviol += 1
            if nviol <= 4:
                ctx.violation({"layer": "tok", "cases": [c], "implementation_trace": io[k][:3000], "model_trace": (mo[k] or "")[:3000], "why": msg})
    for t, v in terms.items():
        ctx.dist("termination." + t, v)
    # the DfsScheduler without random data (implementation only)
    outs = ctx.run_impl("tok", [c for c, _ in DFS_CASES])
    for (c, tag), o in zip(DFS_CASES, outs):
        if "requested_random_data" in o:
            if tag and tag in known:
                ctx.known(tag, known[tag]["what"])
            else:
                ctx.violation({"layer": "tok", "cases": [c], "implementation_answer": o[:400], "why": "notify_one panics under the DFS scheduler"})
        elif not o.startswith("T=ok") and not (tag and tag in known):
            ctx.violation({"layer": "tok", "cases": [c], "implementation_answer": o[:400], "why": "exhaustive DFS run of a correct Notify program fails"})
    # the leaf futures of the wrappers wake the waker they were polled with (sub-waker combinator, exhaustive DFS);
    # futures that wait on a BatchSemaphore are left out: known finding F35
    sub = ["tokprobe subwaker 2", "tokprobe subwaker 3", "tokprobe subwaker 4", "tokprobe subwaker 5"]
    so = ctx.run_impl("tok", sub)
    for c, o in zip(sub, so):
        if not o.startswith("PROBE OK"):
            ctx.violation({"layer": "tok", "cases": [c], "implementation_answer": o[:400],
                           "why": "a tokio-compatible leaf future (oneshot receiver / Notified / watch changed / yield_now) awaited through a sub-waker combinator never completes: it does not wake the waker it was polled with"})
    ctx.dist("probes.subwaker", len(sub))
    ctx.disagreements_checked = len(mism)
    if "C19-F6" in known:
        mism = [i for i in mism if i not in f6]
    if mism:
        ex = [{"case": cases[i], "model": (mo[i] or "")[-600:], "impl": (io[i] or "")[-600:]} for i in mism[:3]]
        ctx.broken.append({"kind": "correspondence", "layer": "tok",
                           "what": "the Coq model of the tokio-compatible primitives (Lang/TokOps.v, Lang/TokNotify.v, Lang/TokWatch.v, Lang/Tok.v) and the crates disagree on %d of %d programs; "
                                   "the theorems of %s are about a model that no longer describes the code" % (len(mism), len(cases), PROPS),
                           "examples": ex})
    ctx.cov["rule"] = RULE + " distinct_nontrivial = distinct programs with at least one decision offering more than one task."
    ctx.sample({"case": cases[0], "impl_trace": io[0][:400]})
    ctx.sample({"case": cases[len(CORPUS)], "impl_trace": io[len(CORPUS)][:400]})
    ctx.sample({"case": cases[-1], "impl_trace": io[-1][:400]})
    return ctx.finish()
