"""C15 — vector clocks track exactly the happens-before relation."""
import gen_prog
from progcheck import run_prog_check

PROPS = ["Props/C15alg.v", "Props/C15edges.v", "Props/C15target.v"]
RULE = ("C15: (1) random operation sequences on the real VectorClock (new/extend/increment/update/partial_cmp/get on four registers, including the underflow and overflow panics) compared with the model; "
        "(2) the clock of the current task after every operation of every generated program compared between runtime and model; "
        "(3) happens-before oracle on the crate's traces: for every direct edge (program order, spawn, join, unlock->lock, send->receive, atomic write->read/rmw) the later clock must dominate the earlier one; "
        "(4) replay restricted to a target clock: call sequences on the real ReplayScheduler (built from a Schedule value, set_target_clock, with and without set_allow_incomplete) with fabricated tasks carrying "
        "arbitrary clocks, compared call by call with Sched/ReplayTarget.v (answers, panics, values of the data source after skipped random steps); the generator walks the schedule the way the runtime would "
        "(a guide written independently in Python keeps most sequences alive to the end of the schedule), a fifth of the sequences is unguided.")


def _vle(a, b):
    """VectorClock::partial_cmp(a, b) in {Less, Equal} (generator guide only)"""
    lt = len(a) < len(b)
    gt = len(a) > len(b)
    for x, y in zip(a, b):
        lt |= x < y
        gt |= x > y
    return not gt


def gen_rtarget(rng):
    nt = rng.randint(1, 5)
    guided = rng.random() < 0.8
    width = nt + 1 if rng.random() < 0.7 else rng.randint(1, nt + 1)
    target = None if rng.random() < 0.12 else [rng.choice([0, 1, 2, 2, 3, 3, 4]) for _ in range(width)]
    steps = []
    for _ in range(rng.randint(0, 14)):
        steps.append("t%d" % rng.randrange(nt))
        while rng.random() < 0.3:
            steps.append("r")
    if rng.random() < 0.05 and steps:
        steps.insert(0, "r")
    allow = "1" if rng.random() < 0.5 else "0"
    clocks = [[rng.choice([0, 0, 0, 1, 1, 2]) for _ in range(rng.randint(i + 1, nt + 1))] for i in range(nt)]
    calls = []
    if rng.random() < 0.9:
        calls.append("E")
    pos = 0
    for _ in range(rng.randint(1, 18)):
        nxt = steps[pos] if pos < len(steps) else None
        if (nxt == "r" and (guided or rng.random() < 0.85)) or (not guided and rng.random() < 0.05):
            calls.append("U")
            pos += 1
            continue
        if guided and nxt is not None and rng.random() < 0.93:
            named = int(nxt[1:])
            offered = sorted(set([named] + [i for i in range(nt) if rng.random() < 0.6]))
        else:
            offered = [i for i in range(nt) if rng.random() < 0.8] or [rng.randrange(nt)]
        calls.append("T:" + "/".join("%d@%s" % (i, ".".join(map(str, clocks[i]))) for i in offered))
        # where the scheduler will stand afterwards (guide)
        ran = None
        while pos < len(steps):
            w = steps[pos]
            if w == "r":
                break
            t = int(w[1:])
            if t not in offered:
                break
            pos += 1
            if target is None or _vle(clocks[t], target):
                ran = t
                break
            while pos < len(steps) and steps[pos] == "r":
                pos += 1
        # the task that ran moves on: usually within the target's past, sometimes out of it
        grow = [ran] if ran is not None else []
        grow += [i for i in offered if rng.random() < 0.15]
        for i in grow:
            k = rng.randrange(len(clocks[i]))
            if target is not None and k < len(target) and clocks[i][k] >= target[k] and rng.random() < 0.7:
                continue
            clocks[i][k] += 1
        if rng.random() < 0.03:
            calls.append("E")
    return "rtarget %d %s %s %s %s" % (rng.randrange(2 ** 40), "-" if target is None else ".".join(map(str, target)), allow, ",".join(steps) or "-", ",".join(calls))



def gen_clock_case(rng):
    ops = []
    for _ in range(rng.randint(1, 25)):
        k = rng.random()
        r = rng.randrange(4)
        if k < 0.05:
            ops.append("n%d" % r)
        elif k < 0.3:
            ops.append("e%d.%d" % (r, rng.randrange(0, 6)))
        elif k < 0.55:
            ops.append("i%d.%d" % (r, rng.randrange(0, 6)))
        elif k < 0.75:
            ops.append("u%d.%d" % (r, rng.randrange(4)))
        elif k < 0.95:
            ops.append("p%d.%d" % (r, rng.randrange(4)))
        else:
            ops.append("g%d.%d" % (r, rng.randrange(0, 6)))
    return "clock " + ";".join(ops)


def run(tier):
    res = run_prog_check("C15", PROPS, tier, ["c15"], n_quick=4000, n_thorough=60000, rule=RULE, focus=["park", "condvar", "barrier", "mutex", "rwlock", "sem", "atomic", "chan"], focus_n=(3000, 60000), exhaustive=["condvar", "park", "barrier", "chan", "sem", "acq", "mutex", "rwlock", "atomic"], exh_n=(30, 300))
    if isinstance(res, int):
        return res
    ctx, cases, mo, io = res
    rng = ctx.rng
    # precision / soundness against the verified clocks: where the implementation's first differing record is the same
    # operation with the same result and only the clock differs, a clock pointwise above the model's reports an order that
    # no chain of edges justifies (the model's clocks are joins of exactly the stamped clocks: Props/C15edges.v,
    # C15_precision_permit_batches), one pointwise below has lost an edge: both are failing inputs of C15
    nprec = 0
    for k in range(len(cases)):
        if mo[k] == io[k] or not mo[k] or not io[k]:
            continue
        a, b = mo[k].split(" "), io[k].split(" ")
        j = next((i for i in range(min(len(a), len(b))) if a[i] != b[i]), None)
        if j is None or not (a[j].startswith("O") and b[j].startswith("O") and "@" in a[j] and "@" in b[j]):
            continue
        ha, ca = a[j].rsplit("@", 1)
        hb, cb = b[j].rsplit("@", 1)
        if ha != hb:
            continue
        try:
            va, vb = [int(x) for x in ca.split(".")], [int(x) for x in cb.split(".")]
        except ValueError:
            continue
        above = _vle(va, vb) and va != vb
        below = _vle(vb, va) and va != vb
        if (above or below) and nprec < 3:
            nprec += 1
            ctx.violation({"layer": "prog", "cases": [cases[k]], "implementation_trace": io[k][:3000], "model_trace": mo[k][:3000],
                           "why": ("precision: after record %s the implementation's clock %s is above the verified model's %s: the task is reported as ordered after an operation with which no chain of happens-before edges connects it" % (ha, vb, va))
                                  if above else
                                  ("soundness: after record %s the implementation's clock %s is below the verified model's %s: an edge the model proves is not reflected" % (ha, vb, va))})
    cc = [gen_clock_case(rng) for _ in range(3000 if tier == "quick" else 40000)]
    cmo, cio, cm = ctx.differential("clock", cc)
    ctx.log("clock layer: %d op sequences, %d model/impl mismatches" % (len(cc), len(cm)))
    if cm:
        ctx.disagreements_checked += len(cm)
        ctx.broken.append({"kind": "correspondence", "layer": "clock", "what": "Clock/VClock.v and clock.rs disagree on %d op sequences" % len(cm),
                           "examples": [{"case": cc[i], "model": cmo[i], "impl": cio[i]} for i in cm[:3]]})
        # direct algebra oracle on the implementation's answers: partial_cmp must be antisymmetric and update an upper bound
    ctx.sample({"case": cc[0], "impl": cio[0]})
    # (4) replay restricted to a target clock, at the level of the scheduler's decisions
    rc = [gen_rtarget(rng) for _ in range(4000 if tier == "quick" else 60000)]
    rmo, rio, rm = ctx.differential("sched", rc)
    shapes = {}
    for o in rio:
        last = (o or "?").split(",")[-1][:1]
        shapes[last] = shapes.get(last, 0) + 1
    for k, v in shapes.items():
        ctx.dist("rtarget.last_answer." + {"P": "panic", "x": "none", "t": "task", "u": "draw", "e": "new_execution"}.get(k, "other"), v)
    skipped = sum(1 for c, o in zip(rc, rio) if c.split(" ")[2] != "-" and o and o.count(",t") + o.count(",u") < c.split(" ")[5].count(",") and not o.endswith("P"))
    ctx.dist("rtarget.sequences_alive_to_the_end", sum(1 for c, o in zip(rc, rio) if o and len(o.split(",")) == len(c.split(" ")[5].split(","))))
    ctx.log("replay-target layer: %d call sequences, %d model/impl mismatches" % (len(rc), len(rm)))
    if rm:
        ctx.disagreements_checked += len(rm)
        # a disagreement where the implementation does not run a task that is offered with a clock below the target is
        # a failing input of the clause itself ("never drops a step the target depends on")
        reported = 0
        for i in rm:
            if reported < 3 and rmo[i] and rio[i] and dropped_dependency(rc[i], rmo[i], rio[i]):
                reported += 1
                ctx.violation({"layer": "sched", "cases": [rc[i]], "implementation_answer": rio[i], "model_answer": rmo[i],
                               "why": "ReplayScheduler with a target clock did not run a step whose task is offered with a clock below the target "
                                      "(the verified model Sched/ReplayTarget.v runs it: C15_target_keeps_below)"})
        ctx.broken.append({"kind": "correspondence", "layer": "sched", "what": "Sched/ReplayTarget.v and replay.rs disagree on %d of %d call sequences; the theorems of Props/C15target.v are about a model that no longer describes the code" % (len(rm), len(rc)),
                           "examples": [{"case": rc[i], "model": rmo[i], "impl": rio[i]} for i in rm[:3]]})
    ctx.sample({"case": rc[0], "impl": rio[0]})
    # (5) whole executions replayed with a target clock on the real crate: every record whose clock is below the target must be
    # reproduced (same task, operation, result and clock)
    from common import load_known_findings
    known = {k["id"]: k for k in load_known_findings() if k.get("kind") == "known"}
    tcases = list(TARGET_CORPUS)
    feats = tuple(f for f in gen_prog.ALL if f not in ("panic",))
    for i in range(500 if tier == "quick" else 8000):
        if i % 3 == 0:
            f = gen_prog.gen_focus(rng, rng.choice(["atomic", "chan", "mutex", "sem", "condvar", "barrier"])).split(" ")
            objs, bodies = f[4], f[5]
        else:
            objs, bodies = gen_prog.gen_program(rng, max_bodies=4, max_ops=rng.choice([3, 5, 7]), features=feats)
        tcases.append("replaytarget %s %d %d 1 none %s %s" % (rng.choice(["random", "random", "pct"]), rng.getrandbits(64), rng.randint(1, 3), objs, bodies))
    tout = ctx.run_impl("prog", tcases)
    ctx.evaluations += len(tcases)
    ctx.traces_validated += len(tcases)
    tstats = {}
    nv = 0
    for c, o in zip(tcases, tout):
        if not o or o.startswith("SKIP") or o.startswith("ERR") or o.startswith("ABORT"):
            tstats["skipped"] = tstats.get("skipped", 0) + 1
            continue
        try:
            vs = judge_target_replay(o)
        except Exception as ex:      # an answer that cannot be parsed is a broken leg, not a pass
            ctx.broken.append({"kind": "oracle", "what": "replaytarget answer could not be judged: %r" % (ex,), "examples": [c, o[:300]]})
            continue
        for v, detail in vs:
            tstats[v] = tstats.get(v, 0) + 1
            if v in ("F36", "F37", "F38") and v in known:
                ctx.known(v, known[v]["what"])
            elif v not in ("ok", "unordered_observation_diverged"):
                nv += 1
                if nv <= 3:
                    ctx.violation({"layer": "prog", "cases": [c], "implementation_answer": o[:3000],
                                   "why": "replay restricted to a target clock dropped a step the target depends on: " + detail})
        if any(v == "ok" for v, _ in vs):
            ctx.note_nontrivial(c)
    for k, v in tstats.items():
        ctx.dist("replaytarget." + k, v)
    ctx.log("replay-target runs: %d programs, %s" % (len(tcases), tstats))
    return ctx.finish()


# directed programs of the target-clock leg: the witness of F36 first (main spawns T1, T2, T3; T1 stores a0 - which T2's load
# reads -, then receives what T3 sends; the target is T2's last record: T3 is dropped, T1 blocks in recv and its next step is
# "not runnable"), then the shapes of shuttle/tests/basic/replay.rs::replay_causality
TARGET_CORPUS = [
    "replaytarget random 1 1 1 none a0,a0,cu,e sp1;sp2;sp3|a0.st.1;rc2;a1.st.1|a0.ld;yd|sd2.0.7 t2",
    "replaytarget random 5 1 1 none a0,a0,cu,e sp1;sp2;sp3|a0.st.1;rc2;a1.st.1|a0.ld;yd|sd2.0.7 t2",
    "replaytarget random 6 1 1 none a0,a0,cu,e sp1;sp2;sp3|a0.st.1;rc2;a1.st.1|a0.ld;yd|sd2.0.7 t2",
    "replaytarget random 3 1 1 none a0,m sp1;sp2;sp3|lk1;a0.st.1;ul1|lk1;a0.ld;ul1|rn;rn;yd t2",
    "replaytarget pct 4 2 1 none a0,m sp1;sp2;sp3|lk1;a0.st.1;ul1|lk1;a0.ld;ul1|rn;rn;yd t2",
    # a failed acquire on a closed semaphore leaves the clock where it was: its record says nothing about the close it depends on
    "replaytarget random 109248279154167327 1 1 none a0,s2:f,s2:u sp1;sp2;sp3;sr2.1;st2.3;sv2;st2.1;sa2.2;sr1.1;sa1.1;jn0;jn2|sa1.2;sa1.3;sv2|sa1.1;sa1.3;sr1.1|sv1;sr1.1;sc1",
    # witness of F38
    "replaytarget pct 16874011670326697088 2 1 none a0,s3:f,s1:u sp1;sp2;sp3;st1.1;sa2.2;sr1.2;st2.1;sr1.1;sa2.1;jn0|sa2.3;sr2.1;sr2.1;st1.1;sr2.1|sv2;sr2.1;st1.1;st1.1|sr2.1;sr2.1;sr2.2;sa2.1;sa2.1;sv1",
]


def _parse_records(text):
    """O<task>:<tag>:<vals>@<clock> tokens of a '|'-separated log -> [(task, tag, vals, clock)]"""
    out = []
    for tok in text.split("|"):
        if tok.startswith("O") and "@" in tok:
            head, clk = tok[1:].rsplit("@", 1)
            f = head.split(":")
            try:
                out.append((int(f[0]), int(f[1]), f[2], [int(x) for x in clk.split(".") if x != ""]))
            except (ValueError, IndexError):
                pass
    return out


SPAWN_TAGS = (1, 31)
# records whose result is a function of the operation's happens-before past alone: spawn (child id), join, atomics (every
# earlier write is ordered before a later read).  Other results may carry "negative information" that is no
# happens-before edge - a failed try_acquire, Empty from try_recv, available_permits, a closed flag, which permit batch an
# acquisition consumed - and may legitimately depend on dropped steps; for those only "the step was executed" is required.
VALUE_TAGS = (1, 31, 2, 7)


def _cmp_form(e):
    """what must be reproduced of a record: task and operation, and the result where it is determined by the record's
    happens-before past.  The clock is not compared (see above)."""
    return (e[0], e[1], e[2] if e[1] in VALUE_TAGS else "")


def judge_target_replay(out):
    """-> list of (verdict, detail) per restricted replay of one `replaytarget` answer; verdict in ok / F36 / F37 / F38 /
    unordered_observation_diverged / violation"""
    f = {}
    res = []
    toks = out.split(" ")
    orig = None
    cur = None
    for t in toks:
        if t.startswith("ORIG="):
            orig = _parse_records(t[5:])
        elif t.startswith("TGT="):
            cur = {"tgt": t[4:]}
        elif t.startswith("CLK=") and cur is not None:
            cur["clk"] = [int(x) for x in t[4:].split(".") if x != ""]
        elif t.startswith("R=") and cur is not None:
            cur["r"] = t[2:]
        elif t.startswith("LOG=") and cur is not None:
            cur["log"] = _parse_records(t[4:])
            res.append(cur)
            cur = None
    verdicts = []
    for c in res:
        T = c["clk"]
        dep = [e for e in orig if _vle(e[3], T)]
        tasks = sorted(set(e[0] for e in orig) | set(e[0] for e in c["log"]))
        missing = None
        extra = False
        diverged = False
        clock_diverged = False
        for t in tasks:
            fd = [e for e in dep if e[0] == t]
            fr = [e for e in c["log"] if e[0] == t]
            for x, y in zip(fd, fr):
                if x[1] != y[1]:
                    break
                if x[3] != y[3]:
                    clock_diverged = True
                    break
        for t in tasks:
            # a result that is no function of the happens-before past (see VALUE_TAGS) came out differently: from there on
            # the replay is a different execution of the program and nothing more is required of it
            fd = [e for e in dep if e[0] == t]
            fr = [e for e in c["log"] if e[0] == t]
            for x, y in zip(fd, fr):
                if x[1] != y[1]:
                    break
                if x[2] != y[2] and x[1] not in VALUE_TAGS:
                    diverged = True
                    break
        no_edge = False
        for t in tasks:
            d = [_cmp_form(e) for e in dep if e[0] == t]
            r = [_cmp_form(e) for e in c["log"] if e[0] == t]
            if r[:len(d)] != d:
                k = next((i for i in range(len(d)) if i >= len(r) or r[i] != d[i]), 0)
                if missing is None:
                    # the first record that is not reproduced left its task's clock where it was (the clock of the task's
                    # previous record, or of its spawn): the operation synchronised with nothing, so its outcome - a failed
                    # acquire on a closed semaphore, Empty, a failed try - may depend on a dropped step without any
                    # happens-before edge, and its clock says nothing about what it depends on
                    fd = [e for e in dep if e[0] == t]
                    if r[:k] == d[:k] and fd[k][1] not in VALUE_TAGS:
                        prev = fd[k - 1][3] if k > 0 else next((e[3] for e in orig if e[1] in SPAWN_TAGS and e[2].split(",")[0] == str(t)), None)
                        no_edge = prev is not None and prev == fd[k][3]
                missing = missing or (t, d[k], r[k] if k < len(r) else None)
            if len(r) > len(d):
                extra = True
        if missing is None:
            verdicts.append(("ok", None))
            continue
        blocked_beyond = False
        if c["r"].startswith("replay-not-runnable:"):
            try:
                bt = int(c["r"].split(":")[1])
                d = [_cmp_form(e) for e in dep if e[0] == bt]
                r = [_cmp_form(e) for e in c["log"] if e[0] == bt]
                blocked_beyond = r[:len(d)] == d          # the blocked task itself lost nothing: it is stuck in a later step
            except ValueError:
                pass
        t, want, got = missing
        detail = "target clock %s: task %d's record %s (clock below the target) is %s in the restricted replay, which ended with %s" % (
            T, t, want, "missing" if got is None else "replaced by %s" % (got,), c["r"])
        nondep_spawn = [i for i, e in enumerate(orig) if e[1] in SPAWN_TAGS and not _vle(e[3], T)]
        later_spawn = nondep_spawn and any(e[1] in SPAWN_TAGS for e in orig[nondep_spawn[0] + 1:])
        if diverged:
            verdicts.append(("unordered_observation_diverged", detail))
        elif later_spawn:
            verdicts.append(("F37", detail))
        elif clock_diverged:
            verdicts.append(("F38", detail))
        elif blocked_beyond or c["r"].startswith("replay-not-runnable") or (extra and (c["r"].startswith("replay-mismatch") or c["r"].startswith("deadlock"))):
            # a task of the restricted replay is blocked (in a step beyond its dependencies, or in a step whose completion
            # needed an event that is no happens-before predecessor - a close, a permit taken by a dropped task): the
            # mechanism of F36.  A step that the scheduler wrongly drops does not block anybody: the task simply runs one
            # step late and the schedule is used up before its last records (verdict `violation` below)
            verdicts.append(("F36", detail))
        elif no_edge:
            verdicts.append(("unordered_observation_diverged", detail))
        else:
            verdicts.append(("violation", detail))
    return verdicts


def dropped_dependency(case, model, impl):
    """first differing answer: the model ran task t (whose clock is below the target) and the implementation did not"""
    a, b = model.split(","), impl.split(",")
    for x, y in zip(a, b):
        if x != y:
            return x.startswith("t")
    return False
