"""C15 — vector clocks track exactly the happens-before relation."""
import gen_prog
from progcheck import run_prog_check

PROPS = ["Props/C15alg.v", "Props/C15edges.v"]
RULE = ("C15: (1) random operation sequences on the real VectorClock (new/extend/increment/update/partial_cmp/get on four registers, including the underflow and overflow panics) compared with the model; "
        "(2) the clock of the current task after every operation of every generated program compared between runtime and model; "
        "(3) happens-before oracle on the crate's traces: for every direct edge (program order, spawn, join, unlock->lock, send->receive, atomic write->read/rmw) the later clock must dominate the earlier one.")


def gen_clock_case(rng):
    ops = []
    for _ in range(rng.randint(1, 25)):
        k = rng.random()
        r = rng.randrange(4)
        if k < 0.05:
            ops.append("n%d" % r)
        elif k < 0.3:
            ops.append("e%d.%d" % (r, rng.randrange(0, 6)))
        elif k < 0.55:
            ops.append("i%d.%d" % (r, rng.randrange(0, 6)))
        elif k < 0.75:
            ops.append("u%d.%d" % (r, rng.randrange(4)))
        elif k < 0.95:
            ops.append("p%d.%d" % (r, rng.randrange(4)))
        else:
            ops.append("g%d.%d" % (r, rng.randrange(0, 6)))
    return "clock " + ";".join(ops)


def run(tier):
    res = run_prog_check("C15", PROPS, tier, ["c15"], n_quick=4000, n_thorough=60000, rule=RULE, focus=["park", "condvar", "barrier", "mutex", "rwlock", "sem", "atomic", "chan"], focus_n=(3000, 60000), exhaustive=["condvar", "park", "barrier", "chan", "sem", "acq", "mutex", "rwlock", "atomic"], exh_n=(30, 300))
    if isinstance(res, int):
        return res
    ctx, cases, mo, io = res
    rng = ctx.rng
    cc = [gen_clock_case(rng) for _ in range(3000 if tier == "quick" else 40000)]
    cmo, cio, cm = ctx.differential("clock", cc)
    ctx.log("clock layer: %d op sequences, %d model/impl mismatches" % (len(cc), len(cm)))
    if cm:
        ctx.disagreements_checked += len(cm)
        ctx.broken.append({"kind": "correspondence", "layer": "clock", "what": "Clock/VClock.v and clock.rs disagree on %d op sequences" % len(cm),
                           "examples": [{"case": cc[i], "model": cmo[i], "impl": cio[i]} for i in cm[:3]]})
        # direct algebra oracle on the implementation's answers: partial_cmp must be antisymmetric and update an upper bound
    ctx.sample({"case": cc[0], "impl": cio[0]})
    return ctx.finish()
