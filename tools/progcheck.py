"""Shared driver of the checks that rest on the engine+primitives correspondence layer ("prog")."""
import os
from common import Ctx, ROOT, load_known_findings
import gen_prog
import proglayer


# canonical multi-task programs per primitive whose schedules are enumerated deeply (all schedules with at most two
# preemptions, up to 2500 / 20000 of them): several waiters, wake-up then wait again, drops while others are blocked
SYSTEMATIC = {
    "condvar": ["a0,m,v sp1;sp2;sp3;yd;cn2;yd;cn2;jn0;jn1;jn2|lk1;cw2.1;ul1|lk1;cw2.1;ul1|yd;yd;lk1;cw2.1;ul1",
                "a0,m,v sp1;sp2;sp3;cn2;cn2;cn2;jn0;jn1;jn2|lk1;cw2.1;ul1|lk1;cw2.1;ul1|lk1;cw2.1;ul1",
                "a0,m,v sp1;sp2;cn2;yd;ca2;cn2;jn0;jn1|lk1;cw2.1;ul1;lk1;cw2.1;ul1|yd;lk1;cw2.1;ul1"],
    "park": ["a0,m sp1;sp2;ut1;yd;ut2;ut1;jn0;jn1|pk;a0.add.1;pk|lk1;yd;ul1;pk",
             "a0,m sp1;lk1;ut1;yd;ul1;ut1;jn0|pk;lk1;ul1;pk"],
    "barrier": ["a0,b2 sp1;sp2;bw1;bw1;jn0;jn1|bw1;yd;bw1|bw1;bw1"],
    "chan": ["a0,c0,e sp1;sp2;rc1;yd;rc1;dr1;jn0;jn1|sd1.1.5;ts1.1.6|sd1.2.7",
             "a0,c1,e sp1;sp2;rc1;rc1;tc1;dr1;jn0;jn1|sd1.1.5;sd1.1.6;dt1.1|sd1.2.7;ts1.2.8",
             "a0,c1,e sp1;sp2;sd1.0.1;sd1.0.2;dt1.0;jn0;jn1|rc1;yd;rc1;rc1|-"],
    "sem": ["a0,s1:f sp1;sp2;sa1.1;yd;sr1.1;sr1.1;jn0;jn1|sa1.2;sr1.2|st1.1;sa1.1;sr1.1",
            "a0,s1:u sp1;sp2;sa1.1;yd;sr1.2;jn0;jn1|sa1.2;sr1.1|sa1.1;st1.1"],
    "acq": ["a0,q,s1:f qn1.0.2.2;qp1.0.2;sp1;sp2;yd;qd1.0.2;sr2.1;jn0;jn1|sa2.1;sr2.1|sa2.1",
            "a0,q,s0:f qn1.0.2.1;qp1.0.2;sp1;sr2.1;jn0;qp1.0.2;qd1.0.2|qp1.0.2;yd"],
    "mutex": ["a0,m,m sp1;sp2;lk1;yd;lk2;ul2;ul1;jn0;jn1|lk2;yd;ul2;lk1;ul1|tl1;a0.add.1"],
    "rwlock": ["a0,w sp1;sp2;rd1;yd;ru1;wr1;ru1;jn0;jn1|wr1;a0.add.1;ru1|rd1;tr1;a0.ld"],
    "atomic": ["a0,a1 sp1;sp2;a0.sw.1;a1.ld;jn0;jn1|a1.sw.2;a0.ld|a0.cas.0.5;a1.add.1"],
}


def corpus_cases():
    out = []
    p = os.path.join(ROOT, "corpus", "prog.txt")
    if os.path.exists(p):
        for line in open(p):
            line = line.strip()
            if line.startswith("prog "):
                out.append(line)
    return out


def known_ids(prop):
    return {k["id"]: k for k in load_known_findings() if k.get("kind") == "known" and prop in k.get("properties", [k.get("property")])}


def run_prog_check(prop, props_files, tier, oracles, features=gen_prog.ALL, n_quick=4000, n_thorough=60000, rule="", extra=None, max_bodies=4, max_ops=6, scenarios=(0, 0), lifecycle=(0, 0), focus=None, focus_n=(0, 0), exhaustive=None, exh_n=(0, 0)):
    """oracles: list of names among c08, c03, c13, objects:<PROP>.  Violations of the implementation's own traces
    are reported with the program as replay; a model/implementation disagreement without an oracle failure
    is reported as a broken correspondence (no-failing-input-found)."""
    ctx = Ctx(prop, tier)
    rng = ctx.rng
    ctx.gen_params()
    for pf in props_files:
        ctx.proof_gate(pf)
    if len(props_files) > 1:
        # proof_gate overwrites the counters: recount over all files
        import re
        ths = []
        for pf in props_files:
            ths += re.findall(r"^\s*(?:Theorem|Lemma|Corollary)\s+(\w+)", open(os.path.join(ROOT, "coq", pf)).read(), re.M)
        ctx.cov["obligations"] = len(ths)
        ctx.cov["theorems"] = ths
        if not any(b["kind"] == "proof" for b in ctx.broken):
            ctx.cov["discharged"] = len(ths)
    if not (ctx.build_model() and ctx.build_harness()):
        return ctx.finish()
    n = n_quick if tier == "quick" else n_thorough
    cases = corpus_cases()
    ncorpus = len(cases)
    for i in range(n):
        wild = (i % 6 == 0)
        cases.append(gen_prog.gen_case(rng, wild=wild, features=features, max_bodies=max_bodies, max_ops=max_ops))
    nscn = scenarios[0] if tier == "quick" else scenarios[1]
    for i in range(nscn // 3):
        c = gen_prog.gen_scenario(rng)
        cases.append(c)
        # the same program under two more schedules
        f = c.split(" ")
        for _ in range(2):
            f[2] = gen_prog.gen_script(rng)
            cases.append(" ".join(f))
    # focused streams: programs over one or two primitives only, with more operations per body, so that multi-step
    # interactions of that primitive (several waiters, wake-up then wait again, drops while blocked) are common
    nfoc = (focus_n[0] if tier == "quick" else focus_n[1]) if focus else 0
    for i in range(nfoc):
        feats = focus[i % len(focus)]
        if isinstance(feats, str):
            c = gen_prog.gen_focus(rng, feats)
        else:
            c = gen_prog.gen_case(rng, wild=False, features=feats, max_bodies=rng.choice([2, 3, 3, 4]), max_ops=rng.choice([6, 8, 10]))
        cases.append(c)
        if i % 2 == 0:
            f = c.split(" ")
            f[2] = gen_prog.gen_script(rng)
            cases.append(" ".join(f))
    ctx.dist("generated.focused", nfoc)
    # systematic schedules: for small focused programs the model's choice tree is enumerated (all scripts with at most
    # three departures from "first offered task", capped) and every script is run on both sides: narrow interleavings
    # that random scripts hit with probability ~1% are covered
    nexh = min((exh_n[0] if tier == "quick" else exh_n[1]) if exhaustive else 0, 300)
    if nexh:
        small = []
        tries = 0
        while len(small) < nexh and tries < 50 * nexh:
            tries += 1
            c = gen_prog.gen_focus(rng, exhaustive[len(small) % len(exhaustive)])
            f = c.split(" ")
            if f[1] != "none" or sum(len(b.split(";")) for b in f[5].split("|")) > 26:
                continue
            small.append(f)
        deep = []
        for kind in dict.fromkeys(exhaustive):
            for pr in SYSTEMATIC.get(kind, []):
                o_, b_ = pr.split(" ")
                deep.append(["prog", "none", "-", "1", o_, b_])
        sc = ctx.run_model("prog", ["scripts %d 2 %s %s" % (200 if tier == "quick" else 600, f[4], f[5]) for f in small]
                           + ["scripts %d 2 %s %s" % (2500 if tier == "quick" else 10000, f[4], f[5]) for f in deep])
        small = small + deep
        nsys = 0
        for f, line in zip(small, sc):
            if line.startswith("ERR"):
                continue
            for script in line.split("|"):
                cases.append("prog none %s %s %s %s" % (script, f[3], f[4], f[5]))
                nsys += 1
        ctx.dist("generated.systematic_programs", len(small))
        ctx.dist("generated.systematic_schedules", nsys)
    nlc = lifecycle[0] if tier == "quick" else lifecycle[1]
    for i in range(nlc):
        cases.append(gen_prog.gen_lifecycle(rng))
    ctx.dist("generated.lifecycle", nlc)
    ctx.dist("generated.random", n)
    ctx.dist("generated.scenario", nscn)
    ctx.dist("corpus", ncorpus)
    mo, io, mism = ctx.differential("prog", cases)
    ctx.log("prog layer: %d cases (%d corpus), %d model/impl mismatches" % (len(cases), ncorpus, len(mism)))
    known = known_ids(prop)
    nviol = 0
    terms = {}
    for k, c in enumerate(cases):
        tr = proglayer.parse_trace(io[k])
        cs = proglayer.parse_case(c)
        if tr is None:
            if io[k].startswith("ABORT") or io[k].startswith("ERR"):
                nviol += 1
                if nviol <= 4:
                    ctx.violation({"layer": "prog", "cases": [c], "implementation_answer": io[k][:500], "model_answer": mo[k][:500],
                                   "why": "the implementation aborted or produced no trace on this program"})
            continue
        evs, term, sched = tr
        tk = term.split(":")[0]
        terms[tk] = terms.get(tk, 0) + 1
        ndec = sum(1 for e in evs if e.kind == "D" and len(e.offered) > 1)
        if ndec >= 1:
            ctx.note_nontrivial(c)
        found = []
        for o in oracles:
            if o == "c08":
                r = proglayer.oracle_c08(evs, term)
                if r:
                    found.append((r, None))
            elif o == "c03":
                r = proglayer.oracle_c03(evs, term, cs)
                if r:
                    found.append((r, None))
            elif o == "c13":
                r = proglayer.oracle_c13(evs, term, cs)
                if r:
                    found.append((r, None))
            elif o == "c15":
                for p_, msg, tag in proglayer.oracle_c15(evs, term, cs):
                    found.append((msg, tag))
            elif o == "c17wake":
                for p_, msg, tag in proglayer.oracle_c17_wake(evs, term, cs):
                    found.append((msg, tag))
            elif o == "acqfifo":
                for p_, msg, tag in proglayer.oracle_acq_fifo(evs, term, cs):
                    found.append((msg, tag))
            elif o == "c07await":
                # only the rules about awaited JoinHandles of futures (C17: the result is delivered after the task is over)
                for p_, msg, tag in proglayer.oracle_c07(evs, term, cs):
                    if msg.startswith("awaiting the JoinHandle"):
                        found.append((msg, tag))
            elif o == "c07":
                for p_, msg, tag in proglayer.oracle_c07(evs, term, cs):
                    found.append((msg, tag))
            elif o.startswith("sync2"):
                want = o.split(":")[1:]
                if not term.startswith("panic") and "pn" not in c:
                    for p_, msg, tag in proglayer.oracle_sync2(evs, term, cs):
                        if not want or p_ in want:
                            found.append((msg, tag))
            elif o.startswith("objects"):
                want = o.split(":")[1:]
                if term.startswith("panic") and "pn" not in c and ";q" in c:
                    for p_, msg, tag in proglayer.oracle_manual_panic(evs, term, cs):
                        if not want or p_ in want:
                            found.append((msg, tag))
                if not term.startswith("panic") and "pn" not in c:
                    for p_, msg, tag in proglayer.oracle_objects(evs, term, cs):
                        if not want or p_ in want:
                            found.append((msg, tag))
        if extra:
            for msg, tag in extra(c, cs, evs, term, sched, io[k]):
                found.append((msg, tag))
        for msg, tag in found:
            if tag and tag in known:
                ctx.known(tag, known[tag]["what"])
                continue
            nviol += 1
            if nviol <= 4:
                ctx.violation({"layer": "prog", "cases": [c], "implementation_trace": io[k][:3000], "model_trace": mo[k][:3000], "why": msg})
    for t, v in terms.items():
        ctx.dist("termination." + t, v)
    ctx.disagreements_checked = len(mism)
    # A disagreement in the *verdict* is a concrete failing input for the properties whose subject is the verdict: the
    # model's verdict is the one the theorems of the Props file are about (exact deadlock verdicts for C03, the step
    # bound for C13, failure reports for C12), and both sides ran the same program under the same scripted schedule.
    nverd = 0
    for i in mism:
        tm = proglayer.parse_trace(mo[i])
        ti = proglayer.parse_trace(io[i])
        if tm is None or ti is None:
            continue
        vm, vi = tm[1], ti[1]
        km, ki = vm.split(":")[0], vi.split(":")[0]
        msg = None
        if prop == "C03" and vm != vi and ("deadlock" in (km, ki)):
            msg = "verdict differs on the same program and schedule: the implementation ends with '%s', the verified model with '%s'" % (vi, vm)
        elif prop == "C13" and km != ki and ("stepbound" in (km, ki)):
            msg = "step-bound verdict differs on the same program and schedule: implementation '%s', verified model '%s'" % (vi, vm)
        elif prop == "C07" and km != ki and km == "ok" and ki in ("panic", "deadlock"):
            msg = "the implementation ends with '%s' on a program that the verified model of the same schedule runs to completion (threads, joins, scopes and thread-locals only)" % vi
        elif prop in ("C04", "C05", "C06", "C17", "C18") and km != ki and "ok" in (km, ki) and (km in ("deadlock", "panic") or ki in ("deadlock", "panic")):
            msg = "verdict differs on the same program and schedule: the implementation ends with '%s', the verified model with '%s' (a wake-up or a grant was lost or invented)" % (vi, vm)
        if msg:
            nverd += 1
            if nverd <= 3:
                ctx.violation({"layer": "prog", "cases": [cases[i]], "implementation_trace": io[i][:3000], "model_trace": mo[i][:3000], "why": msg})
    if mism:
        ex = [{"case": cases[i], "model": mo[i][-600:], "impl": io[i][-600:]} for i in mism[:3]]
        ctx.broken.append({"kind": "correspondence", "layer": "prog",
                           "what": "the Coq model of the runtime/primitives (Engine/Exec.v, Prim/*, Lang/*) and the crates disagree on %d of %d programs; the theorems of %s are about a model that no longer describes the code" % (len(mism), len(cases), ", ".join(props_files)),
                           "examples": ex})
    ctx.cov["rule"] = (rule or "") + (" Programs: corpus of directed cases first, then generated multi-threaded programs in several streams (see input_distribution): uniform random over the check's feature set, scenarios (permanently blocked tasks with detached / aborted futures and parks), lifecycle (nested spawn/join, scopes, thread-locals), per-primitive focus streams (park, condvar, barrier, mutex, rwlock, sem, hand-held Acquire futures, atomics, channels), "
                       "each run on the real runtime under a scripted scheduler and on the extracted model; decisions (offered, current, yielding, choice), draws, per-op results, vector clocks, termination and "
                       "recorded schedule compared. every 6th program is unconstrained (invalid handles, zero permits, ...). distinct_nontrivial = distinct programs with at least one decision offering more than one task.")
    ctx.sample({"case": cases[ncorpus] if len(cases) > ncorpus else cases[0], "impl_trace": (io[ncorpus] if len(cases) > ncorpus else io[0])[:400]})
    ctx.sample({"case": cases[-1], "impl_trace": io[-1][:400]})
    return ctx, cases, mo, io
