"""C11 — PCT: strict priorities, at most depth-1 change points, iteration budget, determinism."""
from common import Ctx

PROPS = "Props/C11.v"
SEEDS = [0, 1, 2, 42, 255, 2**32 - 1, 2**32, 2**63, 2**64 - 1, 0x12345678]


def gen_session(rng):
    """A call sequence that follows the runtime's protocol: E, then decisions whose `current` is the task chosen by the
    previous decision (the harness substitutes it: `c` stands for "the previous answer"), tasks appear with increasing
    ids, finished tasks disappear; some sessions are unconstrained."""
    calls = []
    nexec = rng.randint(1, 6)
    for _ in range(nexec):
        calls.append("E")
        alive = [0]
        next_id = 1
        first = True
        for _ in range(rng.randint(0, 40)):
            r = rng.random()
            if r < 0.12 and next_id < 40:
                for _ in range(rng.choice([1, 1, 1, 2, 3])):
                    alive.append(next_id)
                    next_id += 1
            elif r < 0.2 and len(alive) > 1:
                alive.remove(rng.choice(alive))
            elif r < 0.27:
                calls.append("U")
                continue
            blocked = [t for t in alive if rng.random() < 0.2]
            offered = [t for t in alive if t not in blocked] or [rng.choice(alive)]
            calls.append("T:%s:%s:%d" % (".".join(map(str, offered)), "-" if first else "c", 1 if rng.random() < 0.1 else 0))
            first = False
    return calls


def gen_wild(rng):
    calls = ["E"]
    for _ in range(rng.randint(0, 40)):
        r = rng.random()
        if r < 0.15:
            calls.append("E")
        elif r < 0.3:
            calls.append("U")
        else:
            k = rng.randint(1, 5)
            ids = sorted(rng.sample(range(24), k))
            cur = rng.choice(["-", "c", str(rng.choice(ids)), str(rng.randrange(24))])
            calls.append("T:%s:%s:%d" % (".".join(map(str, ids)), cur, rng.random() < 0.15))
    return calls


def resolve(calls, answers):
    """Replaces the `c` placeholders by the previous answer (both sides get literal ids)."""
    raise NotImplementedError


def oracle(case, answers, depth, iters):
    """Judges the real scheduler's answers of one protocol-following session (see module doc of DESIGN.md, C11)."""
    out = []
    calls = case.split(" ")[4].split(",")
    ans = answers.split(",")
    nsome = sum(1 for a in ans if a.startswith("e") and a != "eN")
    if "P" not in ans and len(ans) == len(calls):
        ne = calls.count("E")
        if nsome != min(ne, iters):
            out.append("new_execution answered Some %d times for %d calls under a budget of %d" % (nsome, ne, iters))
    above = {}         # (a, b) -> index of the decision that showed a ahead of b, with nothing since that lets b overtake a
    known = set()
    pot = {}           # task -> decisions (indices) at which it was the running task with several tasks offered, no yield:
                       #         the only places where a change point can have demoted it
    cp = 0
    for i, (c, a) in enumerate(zip(calls, ans)):
        if a in ("P", "x"):
            break
        if c == "E":
            above, known, pot, cp = {}, set(), {}, 0
            if a == "eN":
                break
            continue
        if c == "U":
            continue
        f = c.split(":")
        offered = [int(x) for x in f[1].split(".")]
        cur = None if f[2] == "-" else int(f[2])
        yielding = f[3] == "1"
        t = int(a[1:])
        if t not in offered:
            out.append("call %d: task %d chosen, offered %s" % (i, t, offered))
            break
        new = [x for x in range(0, max(offered) + 1) if x not in known]
        if new:
            # every new task swaps priorities with a random task: earlier observations say nothing any more
            above = {}
            known |= set(new)
        multi = len(offered) > 1
        if multi and cur is not None:
            if yielding:
                above = {k: v for k, v in above.items() if cur not in k}
                for x in known:
                    if x != cur:
                        above[(x, cur)] = i
            else:
                pot.setdefault(cur, []).append(i)
        for u in offered:
            if u == t or (u, t) not in above:
                continue
            since = above[(u, t)]
            cands = [j for j in pot.get(u, []) if j > since or (j == i)]
            if not cands:
                out.append("call %d: task %d chosen although task %d is offered, had priority over it since call %d, and has not been the running task at a multi-choice decision since" % (i, t, u, since))
                continue
            pot[u].remove(cands[0])
            cp += 1
            above = {k: v for k, v in above.items() if u not in k}
            if cp > max(depth - 1, 0):
                out.append("call %d: at least %d change-point demotions in one execution at depth %d" % (i, cp, depth))
        for u in offered:
            if u != t:
                above[(t, u)] = i
                above.pop((u, t), None)
    return out


def literal(calls, answers):
    """the call list with every `c` replaced by the previous next_task answer"""
    out = []
    prev = None
    for c, a in zip(calls, answers):
        if c.startswith("T:"):
            f = c.split(":")
            if f[2] == "c":
                f[2] = "-" if prev is None else str(prev)
            out.append(":".join(f))
            prev = int(a[1:]) if a.startswith("t") else prev
        else:
            out.append(c)
            if c == "E":
                prev = None
    return out


def run(tier):
    ctx = Ctx("C11", tier)
    rng = ctx.rng
    ctx.gen_params()
    ctx.proof_gate(PROPS)
    if not (ctx.build_model() and ctx.build_harness()):
        return ctx.finish()
    n = 600 if tier == "quick" else 8000
    sessions = []
    for k in range(n):
        seed = rng.choice(SEEDS) if rng.random() < 0.3 else rng.getrandbits(64)
        depth = rng.choice([1, 1, 2, 2, 3, 3, 4, 5, 8, 14, 20]) if rng.random() < 0.97 else 0
        iters = rng.choice([0, 1, 2, 3, 5, 10])
        wild = (k % 5 == 4)
        calls = gen_wild(rng) if wild else gen_session(rng)
        sessions.append((seed, depth, iters, calls, wild))
    # pass 1: the real scheduler with `c` resolved on the fly by the harness
    raw = ["pct %d %d %d %s" % (s, d, i, ",".join(c)) for (s, d, i, c, w) in sessions]
    io = ctx.run_impl("sched", raw)
    # pass 2: literal sequences for both sides
    cases = []
    for (s, d, i, c, w), o in zip(sessions, io):
        lit = literal(c, o.split(","))
        cases.append("pct %d %d %d %s" % (s, d, i, ",".join(lit)))
        if sum(1 for x in lit if x.startswith("T:") and "." in x.split(":")[1]) >= 2:
            ctx.note_nontrivial(cases[-1])
    mo, io2, mism = ctx.differential("sched", cases)
    ctx.log("PCT call sequences: %d sessions, %d model/impl mismatches" % (len(cases), len(mism)))
    nv = 0
    for k, ((s, d, i, c, w), case) in enumerate(zip(sessions, cases)):
        if io2[k] != io[k]:
            nv += 1
            if nv <= 3:
                ctx.violation({"layer": "sched", "cases": [raw[k], case], "run_a": io[k][:1500], "run_b": io2[k][:1500],
                               "why": "two PctSchedulers built from the same seed answered the same calls differently"})
            continue
        if not w and d >= 1:
            for msg in oracle(case, io2[k], d, i):
                nv += 1
                if nv <= 4:
                    ctx.violation({"layer": "sched", "cases": [case], "implementation_answer": io2[k][:2000], "model_answer": mo[k][:2000], "why": msg})
                break
    # detection bound, statistically: a family of depth-d bugs in a two-task program (main: spawn T1; load; [load;] join —
    # T1: m increments).  "the load returns v" with 0 < v < m needs T1 ahead of main and a change point exactly after
    # T1's v-th increment: depth 2; v = 0 and v = m are depth 1.  At parameter d the hit frequency of a depth-d bug must be
    # at least 1/(n*k^(d-1)); the check alarms below half of that, with N chosen so that the expected count is >= 200
    # (false-alarm probability below e^-25 by the Chernoff bound).
    m = 6
    body = "sp1;a0.ld;jn0|" + ";".join(["a0.add.1"] * m)
    pats = "+".join("O0:7:1,%d@" % v for v in range(m + 1))
    stats = []
    # depth 3 (two change points): main loads twice; "the first load returns v (0 < v < m3) and the second returns m3" needs T1
    # ahead of main, a change point after T1's v-th increment, and another one right after main's first load
    m3 = 4
    body3 = "sp1;a0.ld;a0.ld;jn0|" + ";".join(["a0.add.1"] * m3)
    pats3 = "+".join("O0:7:1,%d@&O0:7:1,%d@" % (v, m3) for v in range(m3))
    for d, N, vs, body, pats in [(1, 2000, [0, m], body, pats), (2, 8000 if tier == "quick" else 40000, list(range(1, m)), body, pats),
                                 (3, 40000 if tier == "quick" else 200000, list(range(1, m3)), body3, pats3)]:
        seed = rng.getrandbits(48)
        case = "hits pct %d %d %d a0 %s %s" % (seed, d, N, body, pats)
        o = ctx.run_impl("prog", [case])[0]
        ctx.evaluations += 1
        if not o.startswith("HITS"):
            ctx.violation({"layer": "prog", "cases": [case], "implementation_answer": o[:300], "why": "PCT run failed"})
            continue
        f = dict(x.split("=") for x in o.split(" ")[1:])
        n_it, k = int(f["N"]), int(f["K"])
        hits = [int(x) for x in f["H"].split(",")]
        if n_it != N:
            ctx.violation({"layer": "prog", "cases": [case], "implementation_answer": o, "why": "PCT ran %d executions for a budget of %d" % (n_it, N)})
        bound = 1.0 / (2 * k ** (d - 1))
        for v in vs:
            stats.append((d, v, hits[v], N, k))
            if hits[v] < 0.5 * bound * N:
                ctx.violation({"layer": "prog", "cases": [case], "implementation_answer": o,
                               "why": "depth-%d bug 'load returns %d' hit %d times in %d iterations at depth %d with n=2, k=%d: below half of the guaranteed 1/(n*k^(d-1)) = %.4f" % (d, v, hits[v], N, d, k, bound)})
    ctx.cov["detection_statistics"] = [{"depth": d, "v": v, "hits": h, "iterations": N, "k": k} for d, v, h, N, k in stats]
    ctx.dist("sessions.protocol", sum(1 for x in sessions if not x[4]))
    ctx.dist("sessions.wild", sum(1 for x in sessions if x[4]))
    ctx.dist("answers.panic", sum(1 for o in io2 if "P" in o.split(",")))
    ctx.disagreements_checked = len(mism)
    if mism:
        ex = [{"case": cases[i], "model": mo[i][:600], "impl": io2[i][:600]} for i in mism[:3]]
        ctx.broken.append({"kind": "correspondence", "layer": "sched",
                           "what": "the Coq model of PctScheduler (Sched/Pct.v) and shuttle-schedulers/src/pct.rs disagree on %d of %d call sequences; the theorems of Props/C11.v are about a model that no longer describes the code" % (len(mism), len(cases)),
                           "examples": ex})
    ctx.cov["rule"] = ("C11: call sequences of the Scheduler trait on the real PctScheduler with fabricated tasks (debug build): sessions that follow the runtime's protocol "
                       "(new tasks with increasing ids, current = previous choice, yields, blocked tasks, next_u64 in between) and unconstrained ones; every answer compared with the extracted "
                       "model (pct_new_execution / pct_next_task / pct_next_u64, including panics); on the real answers: Some exactly min(calls, budget) times, the same seed twice gives the same answers, "
                       "and the order oracle: a task is chosen over one that previously had priority over it only if that one was the running task (change point, at most depth-1 per execution, or yield) "
                       "or a task was created in between.  distinct_nontrivial = sessions with at least two multi-choice decisions.")
    ctx.sample({"case": cases[0][:300], "impl": io2[0][:300]})
    ctx.sample({"case": cases[-1][:300], "impl": io2[-1][:300]})
    return ctx.finish()
