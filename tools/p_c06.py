"""C06 — mpsc channels deliver each message exactly once, in order, within capacity."""
from progcheck import run_prog_check

PROPS = ["Props/C06.v"]
RULE = ("C06: unbounded, rendezvous, bound-1 and bound-2 channels with three sender endpoints and one receiver, send/try_send/recv/try_recv, endpoint drops at any point; "
        "oracle on the crate's traces: values received are exactly the sent ones in send order, the buffer never exceeds max(bound,1), Full/Empty/Disconnected only when justified, "
        "drain before disconnection; reported deadlocks judged against abstract objects.")


def run(tier):
    feats = ("spawn", "spawn", "join", "yield", "atomic", "chan", "chan", "chan", "mutex", "rand")
    res = run_prog_check("C06", PROPS, tier, ["c03", "objects:C03", "sync2:C06"], features=feats, n_quick=3000, n_thorough=60000, rule=RULE,
                         focus=["chan"],
                         focus_n=(2500, 50000), exhaustive=["chan"], exh_n=(60, 600))
    if isinstance(res, int):
        return res
    ctx, cases, mo, io = res
    ctx.assumptions.append("single consumer: programs use the Receiver from one body only (the property quantifies over one receiver; with two consumers sharing shuttle's Sync Receiver a lost wake-up and an assertion failure exist, see DESIGN.md findings)")
    return ctx.finish()
