"""An independent, deliberately simple specification interpreter: every visible operation of a Prog program is ONE
atomic step on abstract objects (sequentially consistent interleaving semantics), blocking operations are steps that
are enabled or not.  `outcomes(case)` enumerates every interleaving and returns the set of outcomes in the same
canonical form the harness's `outcomes` command prints (per-task operation results + termination).
Supported: spawn/join, yield, reset, park/unpark, AtomicU64 ops, Mutex, RwLock, unfair semaphores, unbounded channels
(send/recv/try_recv/endpoint drops), Once (call_once with an inline body, is_completed).  Returns None for programs
using anything else."""
import sys

M64 = 2 ** 64
sys.setrecursionlimit(100000)


class Unsupported(Exception):
    pass


def parse(case):
    w = case.split(" ")
    objs = [] if w[-2] == "-" else w[-2].split(",")
    bodies = [[] if b == "-" else b.split(";") for b in w[-1].split("|")]
    return objs, bodies


def atomic_apply(kind, old, args):
    v = args[0] if args else 0
    ok = 1
    ret = old
    new = old
    if kind == "ld":
        pass
    elif kind == "st":
        ret, new = 0, v
    elif kind == "sw":
        new = v
    elif kind == "cas":
        if old == v:
            new = args[1]
        else:
            ok = 0
    elif kind == "add":
        new = (old + v) % M64
    elif kind == "sub":
        new = (old - v) % M64
    elif kind == "and":
        new = old & v
    elif kind == "nand":
        new = (~(old & v)) % M64
    elif kind == "or":
        new = old | v
    elif kind == "xor":
        new = old ^ v
    elif kind == "max":
        new = max(old, v)
    elif kind == "min":
        new = min(old, v)
    else:
        raise Unsupported(kind)
    return new, ok, ret


def outcomes(case, max_states=300000):
    objs, bodies = parse(case)
    init_objs = []
    for i, o in enumerate(objs):
        k = o[0]
        if k == "a":
            init_objs.append(("a", int(o[1:])))
        elif k == "m":
            init_objs.append(("m", None))
        elif k == "w":
            init_objs.append(("w", None, ()))
        elif k == "s":
            n, f = o[1:].split(":")
            if f != "u":
                raise Unsupported("fair semaphore")
            init_objs.append(("s", int(n), False))
        elif k == "c":
            if o[1:] == "u":
                init_objs.append(("c", (), 3, True, None))
            elif int(o[1:]) >= 1:
                init_objs.append(("c", (), 3, True, int(o[1:])))      # sync_channel(n), n >= 1
            else:
                raise Unsupported("rendezvous channel")
        elif k == "e":
            init_objs.append(("e",))
        elif k == "o":
            init_objs.append(("o", 0, None))          # state 0 none / 1 running / 2 done ; runner
        elif k == "b":
            if int(o[1:]) < 1:
                raise Unsupported("barrier of size 0")
            init_objs.append(("b", int(o[1:]), (), ()))   # bound, tasks that arrived and wait, tasks released and not yet returned
        else:
            raise Unsupported(o)
    # task = (frames, handles, results, parked) ; frames = tuple of (body, pc, once_obj or -1)
    # global: objs tuple, tasks tuple, tokens tuple
    init_tasks = (((((0, 0, -1),), (), (), False)),)
    init = (tuple(init_objs), init_tasks, (False,))
    seen = set()
    outs = set()
    overflow = [False]

    def fmt(tasks, term):
        s = ";".join("%d=%s" % (t, ",".join(tk[2])) for t, tk in enumerate(tasks) if tk[2])
        return "%s#%s" % (s, term)

    def finished(tk):
        return len(tk[0]) == 0

    def cur_op(tk):
        while True:
            fr = tk[0]
            if not fr:
                return None
            b, pc, once = fr[-1]
            ops = bodies[b] if b < len(bodies) else []
            if pc < len(ops):
                return ops[pc]
            return "__end__"

    def advance(tk, res=None, push=None):
        frames = list(tk[0])
        b, pc, once = frames[-1]
        frames[-1] = (b, pc + 1, once)
        if push is not None:
            frames.append(push)
        results = tk[2] + ((res,) if res is not None else ())
        return (tuple(frames), tk[1], results, False)

    def steps(state):
        """yields (new_state, is_real) for every enabled step; is_real=False for spurious park returns"""
        O, T, tok = state
        for t, tk in enumerate(T):
            if finished(tk):
                continue
            op = cur_op(tk)

            def put(ntk, O2=O, tok2=tok, extra=None):
                T2 = list(T)
                T2[t] = ntk
                if extra:
                    T2.extend(extra)
                return (O2, tuple(T2), tok2)

            def setobj(i, v):
                L = list(O)
                L[i] = v
                return tuple(L)
            if op == "__end__":
                frames = tk[0][:-1]
                b, pc, once = tk[0][-1]
                if once >= 0:
                    # end of a call_once initialiser: mark complete, the call_once op returns
                    O2 = setobj(once, ("o", 2, None))
                    ntk = (frames, tk[1], tk[2] + ("28:",), False)
                    fb, fpc, fo = frames[-1]
                    ntk = (frames[:-1] + ((fb, fpc + 1, fo),), ntk[1], ntk[2], False)
                    yield put(ntk, O2), True
                else:
                    yield put((frames, tk[1], tk[2], False)), True
                continue
            k2 = op[:2]
            if k2 == "sp":
                nid = len(T)
                child = ((((int(op[2:]), 0, -1),), (), (), False))
                ntk = advance(tk, "1:%d" % nid)
                ntk = (ntk[0], tk[1] + (nid,), ntk[2], False)
                yield put(ntk, tok2=tok + (False,), extra=[child]), True
            elif k2 == "jn":
                target = tk[1][int(op[2:])]
                if finished(T[target]):
                    yield put(advance(tk, "2:%d,%d" % (target, 1000 + target))), True
            elif k2 == "yd":
                yield put(advance(tk, "3:")), True
            elif k2 == "rs":
                yield put(advance(tk, "8:")), True
            elif k2 == "pk":
                if tok[t]:
                    tk2 = list(tok)
                    tk2[t] = False
                    yield put(advance(tk, "4:"), tok2=tuple(tk2)), True
                else:
                    yield put(advance(tk, "4:")), False           # spurious return
            elif k2 in ("ut", "uh"):
                target = int(op[2:]) if k2 == "ut" else tk[1][int(op[2:])]
                if target >= len(T):
                    raise Unsupported("unpark of a task that does not exist")
                tk2 = list(tok)
                tk2[target] = True
                yield put(advance(tk, "5:%d" % target), tok2=tuple(tk2)), True
            elif op[0] == "a" and "." in op and op[1].isdigit():
                parts = op.split(".")
                a = int(parts[0][1:])
                new, ok, ret = atomic_apply(parts[1], O[a][1], [int(x) for x in parts[2:]])
                yield put(advance(tk, "7:%d,%d" % (ok, ret)), setobj(a, ("a", new))), True
            elif k2 == "lk":
                m = int(op[2:])
                if O[m][1] is None:
                    yield put(advance(tk, "15:0"), setobj(m, ("m", t))), True
                elif O[m][1] == t:
                    raise Unsupported("re-entrant lock")
            elif k2 == "tl":
                m = int(op[2:])
                if O[m][1] is None:
                    yield put(advance(tk, "16:0"), setobj(m, ("m", t))), True
                else:
                    yield put(advance(tk, "16:2")), True
            elif k2 == "ul":
                m = int(op[2:])
                if O[m][1] != t:
                    raise Unsupported("unlock without guard")
                yield put(advance(tk, "17:%d" % m), setobj(m, ("m", None))), True
            elif k2 in ("rd", "wr"):
                o = int(op[2:])
                _, wtr, rds = O[o]
                if wtr == t or t in rds:
                    raise Unsupported("re-entrant rwlock")
                if k2 == "wr" and wtr is None and not rds:
                    yield put(advance(tk, "18:1,0"), setobj(o, ("w", t, rds))), True
                if k2 == "rd" and wtr is None:
                    yield put(advance(tk, "18:0,0"), setobj(o, ("w", None, rds + (t,)))), True
            elif k2 in ("tr", "tw"):
                o = int(op[2:])
                _, wtr, rds = O[o]
                w = 1 if k2 == "tw" else 0
                if w and wtr is None and not rds:
                    yield put(advance(tk, "19:1,0"), setobj(o, ("w", t, rds))), True
                elif (not w) and wtr is None and t not in rds:
                    yield put(advance(tk, "19:0,0"), setobj(o, ("w", None, rds + (t,)))), True
                else:
                    yield put(advance(tk, "19:%d,2" % w)), True
            elif k2 == "ru":
                o = int(op[2:])
                _, wtr, rds = O[o]
                if wtr == t:
                    yield put(advance(tk, "20:1,%d" % o), setobj(o, ("w", None, rds))), True
                elif t in rds:
                    yield put(advance(tk, "20:0,%d" % o), setobj(o, ("w", None, tuple(x for x in rds if x != t)))), True
                else:
                    raise Unsupported("rwlock unlock without guard")
            elif k2 in ("sa", "st", "sr"):
                o, n = op[2:].split(".")
                o, n = int(o), int(n)
                _, avail, closed = O[o]
                if n == 0:
                    raise Unsupported("zero permits")
                if k2 == "sa":
                    if closed:
                        yield put(advance(tk, "10:0")), True
                    elif avail >= n:
                        yield put(advance(tk, "10:1"), setobj(o, ("s", avail - n, closed))), True
                elif k2 == "st":
                    if closed:
                        yield put(advance(tk, "11:2")), True
                    elif avail >= n:
                        yield put(advance(tk, "11:0"), setobj(o, ("s", avail - n, closed))), True
                    else:
                        yield put(advance(tk, "11:1")), True
                else:
                    yield put(advance(tk, "12:"), setobj(o, ("s", avail + n, closed))), True
            elif k2 == "sc":
                o = int(op[2:])
                yield put(advance(tk, "13:"), setobj(o, ("s", O[o][1], True))), True
            elif k2 == "sv":
                o = int(op[2:])
                yield put(advance(tk, "14:%d,%d" % (O[o][1], 1 if O[o][2] else 0))), True
            elif k2 in ("sd", "ts"):
                ch, slot, v = op[2:].split(".")
                ch = int(ch)
                _, q, ntx, rx, cap = O[ch]
                if not rx:
                    yield put(advance(tk, "23:2")), True
                elif cap is None or len(q) < cap:
                    yield put(advance(tk, "23:0"), setobj(ch, ("c", q + (int(v),), ntx, rx, cap))), True
                elif k2 == "ts":
                    yield put(advance(tk, "23:1")), True
                # a blocking send on a full channel is not enabled
            elif k2 in ("rc", "tc"):
                ch = int(op[2:])
                _, q, ntx, rx, cap = O[ch]
                if q:
                    yield put(advance(tk, "24:0,%d" % q[0]), setobj(ch, ("c", q[1:], ntx, rx, cap))), True
                elif ntx == 0:
                    yield put(advance(tk, "24:2")), True
                elif k2 == "tc":
                    yield put(advance(tk, "24:1")), True
            elif k2 == "dt":
                ch = int(op[2:].split(".")[0])
                _, q, ntx, rx, cap = O[ch]
                yield put(advance(tk, "25:"), setobj(ch, ("c", q, ntx - 1, rx, cap))), True
            elif k2 == "dr":
                ch = int(op[2:])
                _, q, ntx, rx, cap = O[ch]
                yield put(advance(tk, "26:"), setobj(ch, ("c", q, ntx, False, cap))), True
            elif k2 == "co":
                o, j = op[2:].split(".")
                o, j = int(o), int(j)
                _, stt, runner = O[o]
                if stt == 2:
                    yield put(advance(tk, "28:")), True
                elif stt == 0:
                    # this task wins: the initialiser's operations follow as steps of this task
                    frames = tk[0] + ((j, 0, o),)
                    yield put((frames, tk[1], tk[2], False), setobj(o, ("o", 1, t))), True
                # stt == 1: another task is running the initialiser: not enabled
            elif k2 == "bw":
                # Barrier::wait is two visible steps: the arrival (the arrival that completes the group releases it and is the
                # leader) and, for the others, the return once released
                o = int(op[2:])
                _, bound, waiting, released = O[o]
                if t in released:
                    yield put(advance(tk, "27:0"), setobj(o, ("b", bound, waiting, tuple(x for x in released if x != t)))), True
                elif t in waiting:
                    pass
                elif len(waiting) + 1 >= bound:
                    yield put(advance(tk, "27:1"), setobj(o, ("b", bound, (), released + waiting))), True
                else:
                    yield put(tk, setobj(o, ("b", bound, waiting + (t,), released))), True
            elif k2 == "ic":
                o = int(op[2:])
                yield put(advance(tk, "29:%d" % (1 if O[o][1] == 2 else 0))), True
            else:
                raise Unsupported(op)

    def explore(state):
        stack = [state]
        while stack:
            st = stack.pop()
            if st in seen:
                continue
            seen.add(st)
            if len(seen) > max_states:
                overflow[0] = True
                return
            O, T, tok = st
            nxt = list(steps(st))
            real = [s for s, r in nxt if r]
            if not real:
                unfinished = [t for t, tk in enumerate(T) if not finished(tk)]
                if unfinished:
                    outs.add(fmt(T, "deadlock:[%s]" % ",".join(map(str, unfinished))))
                else:
                    outs.add(fmt(T, "ok"))
                continue
            # spurious park returns are possible only while something else can really run
            for s, r in nxt:
                stack.append(s)

    try:
        explore(init)
    except Unsupported:
        return None
    if overflow[0]:
        return None
    return outs
