"""C18 — BatchSemaphore conserves permits, honours fairness mode, is cancel-safe."""
from progcheck import run_prog_check

PROPS = ["Props/C18.v"]
RULE = ("C18: semaphores of both fairness modes with 0..3 permits, blocking acquire, try_acquire, release, close, available_permits observations from several tasks; "
        "results replayed on a counting semaphore: an acquisition completes only with enough permits, available_permits never exceeds initial + released - acquired, "
        "Closed/NoPermits reported exactly when closed / not; a reported deadlock must not leave every pending acquire satisfiable.")


def run(tier):
    feats = ("spawn", "join", "yield", "atomic", "rand", "sem", "sem", "sem", "mutex", "rwlock", "park")
    res = run_prog_check("C18", PROPS, tier, ["objects:C18:C03"], features=feats, n_quick=5000, n_thorough=80000, rule=RULE)
    if isinstance(res, int):
        return res
    ctx, cases, mo, io = res
    return ctx.finish()
