"""C18 — BatchSemaphore conserves permits, honours fairness mode, is cancel-safe."""
from progcheck import run_prog_check

PROPS = ["Props/C18.v"]
RULE = ("C18: semaphores of both fairness modes with 0..3 permits, blocking acquire, try_acquire, release, close, available_permits observations from several tasks; "
        "results replayed on a counting semaphore: an acquisition completes only with enough permits, available_permits never exceeds initial + released - acquired, "
        "Closed/NoPermits reported exactly when closed / not; a reported deadlock must not leave every pending acquire satisfiable.")


def run(tier):
    feats = ("spawn", "join", "yield", "atomic", "rand", "sem", "sem", "sem", "mutex", "rwlock", "park")
    res = run_prog_check("C18", PROPS, tier, ["objects:C18:C03"], features=feats, n_quick=5000, n_thorough=80000, rule=RULE, focus=["sem", "acq", "acq"], focus_n=(3000, 60000), exhaustive=["sem", "acq"], exh_n=(60, 600))
    if isinstance(res, int):
        return res
    ctx, cases, mo, io = res
    # directed probes for a scenario the program language cannot express (an Acquire future polled by hand while the same
    # task acquires again): regression for F17
    probes = ["probe f17 0", "probe f17 1"]
    po = ctx.run_impl("prog", probes)
    ctx.evaluations += len(probes)
    for c, o in zip(probes, po):
        if not o.startswith("PROBE OK"):
            ctx.violation({"layer": "prog", "cases": [c], "implementation_answer": o,
                           "why": "a task that holds a queued, pending acquire on an unfair semaphore and then acquires a permit itself is never scheduled again (reblock_if_unfair blocks the running task)"})
    ctx.dist("probes.f17", len(probes))
    return ctx.finish()
