"""C18 — BatchSemaphore conserves permits, honours fairness mode, is cancel-safe."""
from progcheck import run_prog_check

PROPS = ["Props/C18.v"]
RULE = ("C18: semaphores of both fairness modes with 0..3 permits, blocking acquire, try_acquire, release, close, available_permits observations from several tasks; "
        "results replayed on a counting semaphore: an acquisition completes only with enough permits, available_permits never exceeds initial + released - acquired, "
        "Closed/NoPermits reported exactly when closed / not; a reported deadlock must not leave every pending acquire satisfiable.")


def run(tier):
    feats = ("spawn", "join", "yield", "atomic", "rand", "sem", "sem", "sem", "mutex", "rwlock", "park")
    res = run_prog_check("C18", PROPS, tier, ["objects:C18:C03", "acqfifo"], features=feats, n_quick=5000, n_thorough=80000, rule=RULE, focus=["sem", "acq", "acq"], focus_n=(3000, 60000), exhaustive=["sem", "acq"], exh_n=(60, 600))
    if isinstance(res, int):
        return res
    ctx, cases, mo, io = res
    # granting against the verified model: the model's semaphore is proved to grant in arrival order when fair, to conserve
    # permits and to be cancel-safe (Props/C18.v); where the first difference between the two traces is the RESULT of an
    # acquisition (a hand-polled Acquire is Ready on one side and Pending on the other, an acquire / try_acquire answers
    # differently) the implementation grants out of turn or withholds a grant: a failing input, not only a broken tie
    ngr = 0
    for k in range(len(cases)):
        if mo[k] == io[k] or not mo[k] or not io[k]:
            continue
        a, b = mo[k].split(" "), io[k].split(" ")
        j = next((i for i in range(min(len(a), len(b))) if a[i] != b[i]), None)
        if j is None or not (a[j].startswith("O") and b[j].startswith("O")):
            continue
        fa, fb = a[j].split("@")[0].split(":"), b[j].split("@")[0].split(":")
        if len(fa) < 3 or len(fb) < 3 or fa[:2] != fb[:2] or fa[1] not in ("43", "10", "11") or fa[2] == fb[2]:
            continue
        if ngr < 3:
            ngr += 1
            ctx.violation({"layer": "prog", "cases": [cases[k]], "implementation_trace": io[k][:3000], "model_trace": mo[k][:3000],
                           "why": "task %s: %s answers %s where the verified semaphore model answers %s: a request is granted out of arrival order, or a grant is withheld"
                                  % (fa[0][1:], {"43": "a poll of a queued Acquire", "10": "acquire", "11": "try_acquire"}[fa[1]], fb[2], fa[2])})
    # directed probes for a scenario the program language cannot express (an Acquire future polled by hand while the same
    # task acquires again): regression for F17
    probes = ["probe f17 0", "probe f17 1"]
    po = ctx.run_impl("prog", probes)
    ctx.evaluations += len(probes)
    for c, o in zip(probes, po):
        if not o.startswith("PROBE OK"):
            ctx.violation({"layer": "prog", "cases": [c], "implementation_answer": o,
                           "why": "a task that holds a queued, pending acquire on an unfair semaphore and then acquires a permit itself is never scheduled again (reblock_if_unfair blocks the running task)"})
    ctx.dist("probes.f17", len(probes))
    return ctx.finish()
