"""C13 — step, iteration and time bounds are enforced as configured."""
import gen_prog
from progcheck import run_prog_check

PROPS = ["Props/C13.v"]
RULE = ("C13: programs under FailAfter / ContinueAfter bounds 1..30 and without bound: every decision must be made with fewer than n steps performed since the last reset, no draw may be step n+1, "
        "a max-steps failure requires a FailAfter bound that was reached; iteration counts: the real Runner's return value under Random/PCT/RoundRobin/DFS budgets is compared with the number of body invocations.")


def run(tier):
    res = run_prog_check("C13", PROPS, tier, ["c13", "c08"], n_quick=5000, n_thorough=80000, rule=RULE)
    if isinstance(res, int):
        return res
    ctx, cases, mo, io = res
    rng = ctx.rng
    # iteration budgets: `twice` also reports the number of executions performed
    ic = []
    for i in range(200 if tier == "quick" else 2000):
        objs, bodies = gen_prog.gen_program(rng, max_bodies=3, max_ops=4, features=("spawn", "join", "yield", "atomic", "mutex"))
        kind = rng.choice(["random", "pct", "rr", "urw"])
        iters = rng.choice([1, 2, 3, 7])
        ms = rng.choice(["none", "cont:%d" % rng.randint(1, 10)])
        ic.append(("twice %s %d 2 %d %s %s %s" % (kind, rng.getrandbits(64), iters, ms, objs, bodies), iters))
    out = ctx.run_impl("prog", [c for c, _ in ic])
    ctx.evaluations += len(ic)
    nv = 0
    for (c, iters), o in zip(ic, out):
        if o.startswith("SAME"):
            n = int(o.split("N=")[1].split(" ")[0])
            failed = " F=-" not in o
            outside = "outside-execution" in o
            if (not failed and n != iters) or (failed and not outside and n > iters):
                nv += 1
                if nv <= 3:
                    ctx.violation({"layer": "prog", "cases": [c], "implementation_answer": o, "why": "the run performed %d executions under an iteration budget of %d" % (n, iters)})
    ctx.sample({"case": ic[0][0], "impl": out[0]})
    return ctx.finish()
