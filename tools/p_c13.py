"""C13 — step, iteration and time bounds are enforced as configured."""
import gen_prog
from progcheck import run_prog_check

PROPS = ["Props/C13.v"]
RULE = ("C13: programs under FailAfter / ContinueAfter bounds 1..30 and without bound: every decision must be made with fewer than n steps performed since the last reset, no draw may be step n+1, "
        "a max-steps failure requires a FailAfter bound that was reached; iteration counts: the real Runner's return value under Random/PCT/RoundRobin/DFS budgets is compared with the number of body invocations.")


def run(tier):
    res = run_prog_check("C13", PROPS, tier, ["c13", "c08"], n_quick=5000, n_thorough=80000, rule=RULE, focus=["bound", "bound", "bound", "sem", "mutex", "chan", "park", "atomic"], focus_n=(2400, 48000), exhaustive=["sem", "mutex", "chan", "park"], exh_n=(20, 200))
    if isinstance(res, int):
        return res
    ctx, cases, mo, io = res
    rng = ctx.rng
    # iteration budgets: `twice` also reports the number of executions performed
    ic = []
    for i in range(200 if tier == "quick" else 2000):
        objs, bodies = gen_prog.gen_program(rng, max_bodies=3, max_ops=4, features=("spawn", "join", "yield", "atomic", "mutex"))
        kind = rng.choice(["random", "pct", "rr", "urw"])
        iters = rng.choice([1, 2, 3, 7])
        ms = rng.choice(["none", "cont:%d" % rng.randint(1, 10)])
        ic.append(("twice %s %d 2 %d %s %s %s" % (kind, rng.getrandbits(64), iters, ms, objs, bodies), iters))
    out = ctx.run_impl("prog", [c for c, _ in ic])
    ctx.evaluations += len(ic)
    nv = 0
    for (c, iters), o in zip(ic, out):
        if o.startswith("SAME"):
            n = int(o.split("N=")[1].split(" ")[0])
            failed = " F=-" not in o
            outside = "outside-execution" in o
            if (not failed and n != iters) or (failed and not outside and n > iters):
                nv += 1
                if nv <= 3:
                    ctx.violation({"layer": "prog", "cases": [c], "implementation_answer": o, "why": "the run performed %d executions under an iteration budget of %d" % (n, iters)})
    ctx.sample({"case": ic[0][0], "impl": out[0]})
    # time limit: the body takes `sleep` ms of real time; the clock readings of the model (runner_loop_t) are derived from
    # the measured end times of the invocations; readings too close to the limit are left open (both answers accepted)
    SLACK_LO, SLACK_HI = 3000, 40000     # microseconds
    tl = []
    for i in range(4 if tier == "quick" else 24):
        kind = ["random", "pct", "rr", "urw"][i % 4]
        limit, sleep = rng.choice([(50, 120), (200, 120), (30, 100), (300, 120)])
        tl.append("timelimit %s %d %d %d %d" % (kind, rng.getrandbits(32), rng.choice([20, 50]), limit, sleep))
    tout = ctx.run_impl("prog", tl)
    ctx.evaluations += len(tl)
    mcases, minfo = [], []
    for c, o in zip(tl, tout):
        f = c.split()
        budget, limit = int(f[3]), int(f[4]) * 1000
        if not o.startswith("TL N="):
            ctx.violation({"layer": "prog", "cases": [c], "implementation_answer": o, "why": "a run with a time limit failed"})
            continue
        n = int(o.split("N=")[1].split()[0])
        b = int(o.split("B=")[1].split()[0])
        ts = o.split("times=")[1].split()[0]
        ends = [int(x.split("-")[1]) for x in ts.split(",")] if ts != "-" else []
        end = int(o.split("end=")[1])
        if n != b:
            ctx.violation({"layer": "prog", "cases": [c], "implementation_answer": o, "why": "returned count %d differs from the %d body invocations" % (n, b)})
            continue
        # direct reading of the property: an invocation never starts after the limit was exceeded at the end of the previous one
        late = [j + 1 for j, e in enumerate(ends[:-1]) if e > limit + SLACK_HI]
        if late:
            ctx.violation({"layer": "prog", "cases": [c], "implementation_answer": o,
                           "why": "iterations %s were started although the time limit of %d us had expired before them (previous invocation ended at %s us)" % (late, limit, [ends[j - 1] for j in late])})
            continue
        if n < budget and end < limit:
            ctx.violation({"layer": "prog", "cases": [c], "implementation_answer": o, "why": "the run stopped after %d of %d iterations at %d us, before the limit of %d us" % (n, budget, end, limit)})
            continue
        # model: clock reading i (before iteration i) = end of invocation i-1 > limit; ambiguous readings are skipped
        amb = any(limit - SLACK_LO <= e <= limit + SLACK_HI for e in ends)
        if amb:
            ctx.dist("timelimit.ambiguous", 1)
            continue
        bits = "0" + "".join("1" if e > limit else "0" for e in ends)
        mcases.append("timelimit %d %s a0 sp1;yd;jn0|yd" % (budget, bits))
        minfo.append((c, o, n))
    mres = ctx.run_model("prog", mcases) if mcases else []
    for (c, o, n), mc, mr in zip(minfo, mcases, mres):
        ctx.dist("timelimit.compared", 1)
        if mr != "N=%d" % n:
            ctx.violation({"layer": "prog", "cases": [c, mc], "implementation_answer": o, "model_answer": mr,
                           "why": "count under a time limit differs from the model's runner_loop_t on the measured clock readings"})
    if tl:
        ctx.sample({"case": tl[0], "impl": tout[0]})
    return ctx.finish()
