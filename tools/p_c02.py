"""C02 — no interleaving is unreachable: a choice point precedes every visible op."""
import os
from common import Ctx
from progcheck import known_ids
import spec

PROPS = ["Props/C02.v"]


def gen_small(rng, kinds):
    """small deadlock-prone-free programs: main spawns 1-2 children; each body has 1-4 ops over few objects; guards are always released"""
    objs = ["a0", "a0"]
    have = {"a": [0, 1]}
    for k in kinds:
        if k == "m":
            have.setdefault("m", []).append(len(objs)); objs.append("m")
        elif k == "w":
            have.setdefault("w", []).append(len(objs)); objs.append("w")
        elif k == "s":
            have.setdefault("s", []).append(len(objs)); objs.append("s%d:u" % rng.choice([0, 1, 2]))
        elif k == "c":
            have.setdefault("c", []).append(len(objs)); objs.append("cu"); objs.append("e")
        elif k == "o":
            have.setdefault("o", []).append(len(objs)); objs.append("o"); objs.append("m")
        elif k == "b":
            have.setdefault("b", []).append(len(objs)); objs.append("b2")
    nchild = rng.choice([1, 1, 2])
    closure = 1 + nchild if "o" in have else None

    def body(b, n):
        ops = []
        for _ in range(n):
            r = rng.random()
            cands = ["atomic", "atomic"]
            for k in have:
                if k != "a":
                    cands.append(k)
            k = rng.choice(cands)
            if k == "atomic":
                a = rng.choice(have["a"])
                ops.append(rng.choice(["a%d.ld" % a, "a%d.st.%d" % (a, rng.randint(1, 3)), "a%d.add.1" % a, "a%d.cas.0.%d" % (a, rng.randint(1, 3)), "a%d.sw.%d" % (a, rng.randint(1, 3))]))
            elif k == "m":
                m = rng.choice(have["m"])
                if rng.random() < 0.6:
                    a = rng.choice(have["a"])
                    ops += ["lk%d" % m, rng.choice(["a%d.ld" % a, "a%d.add.1" % a]), "ul%d" % m]
                else:
                    ops.append("tl%d" % m)
                    ops.append("yd")
            elif k == "w":
                w = rng.choice(have["w"])
                kk = rng.choice(["rd", "wr"])
                a = rng.choice(have["a"])
                ops += ["%s%d" % (kk, w), rng.choice(["a%d.ld" % a, "a%d.add.1" % a]), "ru%d" % w]
            elif k == "s":
                s_ = rng.choice(have["s"])
                ops.append(rng.choice(["st%d.1" % s_, "sr%d.1" % s_, "sv%d" % s_, "sr%d.1" % s_]))
            elif k == "c":
                c = rng.choice(have["c"])
                if b == 0:
                    ops.append(rng.choice(["rc%d" % c, "tc%d" % c, "tc%d" % c]))
                else:
                    ops.append(rng.choice(["sd%d.%d.%d" % (c, b % 3, rng.randint(1, 9)), "dt%d.%d" % (c, b % 3)]))
            elif k == "o":
                o = rng.choice(have["o"])
                ops.append(rng.choice(["co%d.%d" % (o, closure), "ic%d" % o]))
            elif k == "b":
                if not any(x.startswith("bw") for x in ops):
                    ops.append("bw%d" % rng.choice(have["b"]))
        # a `tl` may leave a guard: release happens implicitly at the end of the body and is logged; keep such programs out
        return ops
    bodies = []
    main = ["sp%d" % (i + 1) for i in range(nchild)] + body(0, rng.randint(0, 3)) + (["jn%d" % i for i in range(nchild)] if rng.random() < 0.7 else [])
    bodies.append(main)
    for i in range(nchild):
        bodies.append(body(i + 1, rng.randint(1, 3)))
    if closure is not None:
        a = rng.choice(have["a"])
        bodies.append([rng.choice(["a%d.ld" % a, "a%d.add.1" % a, "a%d.st.7" % a])])
    # drop a sender endpoint twice -> invalid; dedupe dt ops per body
    for b in bodies:
        seen = set()
        for i, op in enumerate(list(b)):
            if op.startswith("dt"):
                if op in seen:
                    b[i] = "yd"
                seen.add(op)
    txt = "|".join(";".join(b) if b else "-" for b in bodies)
    if "tl" in txt:
        txt = txt.replace("tl", "lk").replace(";yd", "")   # keep guards explicit: turn try-locks into lock...unlock is not present -> drop them
        return None
    return ",".join(objs), txt


def gen_bounded(rng):
    """sync_channel(1..2): children make blocking sends (endpoints are never dropped, so F5b does not apply), main receives at
    least as many values as must be taken for every send to complete and observes in between"""
    cap = rng.choice([1, 1, 2])
    nchild = rng.choice([1, 2, 2])
    sends = [rng.randint(1, 2) for _ in range(nchild)]
    tot = sum(sends)
    nrecv = rng.randint(max(0, tot - cap), tot)
    main = ["sp%d" % (i + 1) for i in range(nchild)]
    for _ in range(nrecv):
        main.append("rc1")
        if rng.random() < 0.4:
            main.append(rng.choice(["tc1", "a0.ld"]))
    bodies = [main]
    for i in range(nchild):
        ops = []
        for k in range(sends[i]):
            ops.append("sd1.%d.%d" % (i + 1, 10 * (i + 1) + k))
            if rng.random() < 0.4:
                ops.append("a0.add.1")
        bodies.append(ops)
    return "a0,c%d,e" % cap, "|".join(";".join(b) if b else "-" for b in bodies)


def run(tier):
    # (1) correspondence of the scheduling points: the theorems of Props/C02.v are about the placement of Switch nodes in the
    #     code trees; every program below is run on the real runtime and on the model under the same scripted schedule, and
    #     every decision (where it happens, what is offered) is compared
    from progcheck import run_prog_check
    res = run_prog_check("C02", PROPS, tier, ["c08"], n_quick=2000, n_thorough=40000,
                         focus=["atomic", "mutex", "rwlock", "sem", "acq", "chan", "condvar", "barrier", "park"], focus_n=(3000, 60000),
                         scenarios=(600, 12000), exhaustive=["condvar", "park", "barrier", "chan", "sem", "acq", "mutex", "rwlock", "atomic"], exh_n=(30, 300))
    if isinstance(res, int):
        return res
    ctx, _cases, _mo, _io = res
    rng = ctx.rng
    known = known_ids("C02")
    n = 500 if tier == "quick" else 6000
    progs = []
    # directed: the witnesses of F5
    progs.append(("a0,a0,cu,e", "sp1;rc2;tc2|sd2.1.1;dt2.1;dt2.0;dt2.2"))
    progs.append(("a0,a0,o,m", "sp1;a0.st.1;ic2;jn0|co2.2|a0.ld"))
    progs.append(("a0,b2", "sp1;a0.ld;bw1;jn0|a0.st.1;bw1"))
    progs.append(("a0,a0,s0:u", "sp1;sv2;a0.st.3;a1.st.1|a0.ld;sr2.1;a0.st.1"))      # the witness of F5c
    # four arrivals at a barrier of two: which pairs form, and who completes each, depends on choice points before the arrivals
    progs.append(("a0,b2", "sp1;sp2;sp3;bw1;jn0;jn1;jn2|a0.st.1;bw1|bw1|a0.ld;bw1"))
    # rendezvous channel: try_send succeeds only if the receiver is already waiting
    progs.append(("a0,c0,e", "sp1;a0.ld;ts1.0.5;dt1.0;dt1.1;dt1.2;jn0|a0.st.1;rc1"))
    progs.append(("a0,c1,e", "sp1;a0.ld;ts1.0.5;ts1.0.6;dt1.0;dt1.1;dt1.2;jn0|a0.st.1;rc1;a0.ld;tc1"))
    while len(progs) < n:
        kinds = rng.choice([[], ["m"], ["w"], ["s"], ["c"], ["o"], ["m", "s"], ["c", "m"], ["o", "m"], ["b"], ["b"], ["k"]])
        p = gen_bounded(rng) if kinds == ["k"] else gen_small(rng, kinds)
        if p:
            progs.append(p)
    cases = ["outcomes 20000 none %s %s" % p for p in progs]
    io = ctx.run_impl("prog", cases)
    ctx.evaluations += len(cases)
    # the same enumeration on the verified model (its check_dfs over the same program): an outcome the model reaches and the
    # runtime does not is a failing input whatever else is known about the program
    mo_out = ctx.run_model("prog", cases)
    nv = 0
    stats = {"checked": 0, "skipped_unsupported": 0, "skipped_incomplete": 0, "spec_outcomes": 0, "compared_with_model": 0}
    for c, o, m_ in zip(cases, io, mo_out):
        if " complete=1 " in o + " " and " complete=1 " in m_ + " ":
            impl_ = set(o.split(" ", 2)[2].split("|")) if len(o.split(" ", 2)) > 2 else set()
            mod_ = set(m_.split(" ", 2)[2].split("|")) if len(m_.split(" ", 2)) > 2 else set()
            stats["compared_with_model"] += 1
            lost = sorted(mod_ - impl_)
            if lost:
                nv += 1
                if nv <= 5:
                    ctx.violation({"layer": "prog", "cases": [c], "unreachable_outcomes": lost[:5], "reachable": sorted(impl_)[:10],
                                   "why": "%d outcome(s) that the verified model reaches (Props/C02.v: a scheduling point precedes every visible operation except the listed blocking steps) are produced by no schedule the runtime offers" % len(lost)})
                continue
    for c, o in zip(cases, io):
        try:
            sp = spec.outcomes(c)
        except spec.Unsupported:
            sp = None
        if sp is None:
            stats["skipped_unsupported"] += 1
            continue
        if " complete=1 " not in o + " ":
            stats["skipped_incomplete"] += 1
            continue
        impl = set(o.split(" ", 2)[2].split("|")) if len(o.split(" ", 2)) > 2 else set()
        stats["checked"] += 1
        stats["spec_outcomes"] += len(sp)
        if len(sp) > 1:
            ctx.note_nontrivial(c)
        missing = sorted(sp - impl)
        extra = sorted(impl - sp)
        if missing:
            tag = None
            body = c.split(" ")[-1]
            if ("dt" in body or "dr" in body) and "F5b" in known:
                tag = "F5b"
            elif "sv" in body and "F5c" in known:
                tag = "F5c"
            elif "bw" in body and "F5d" in known:
                tag = "F5d"
            if tag:
                ctx.known(tag, known[tag]["what"])
                continue
            nv += 1
            if nv <= 5:
                ctx.violation({"layer": "prog", "cases": [c], "unreachable_outcomes": missing[:5], "reachable": sorted(impl)[:10],
                               "why": "%d outcome(s) allowed by some sequentially consistent interleaving of the visible operations are produced by no schedule the runtime offers" % len(missing)})
        elif extra:
            nv += 1
            if nv <= 5:
                ctx.violation({"layer": "prog", "cases": [c], "impossible_outcomes": extra[:5],
                               "why": "the runtime produced outcome(s) that no sequentially consistent interleaving allows (specification interpreter tools/spec.py)"})
    ctx.cov["c02_stats"] = stats
    ctx.cov["rule"] = ctx.cov.get("rule", "") + " EXPLORATION: " + ("small programs (main + 1-2 children, 1-4 operations each over atomics, Mutex, RwLock, unfair semaphores, unbounded channels with endpoint drops, bounded channels, Once, Barrier) ; the real runtime's whole choice tree is enumerated "
                       "with DfsScheduler (complete enumerations only) and the set of outcomes (per-task results + termination) compared with the set computed by an independent interpreter in which every visible operation "
                       "is one atomic step; the same enumeration is made on the extracted model (check_dfs of Lang/Prog.v) and an outcome the model reaches but the runtime does not is a failing input. non-trivial = programs with more than one SC outcome")
    ctx.sample({"case": cases[0], "impl": io[0][:300]})
    ctx.sample({"case": cases[5], "impl": io[5][:300]})
    ctx.log("C02: %s" % stats)
    return ctx.finish()
