"""prog layer helpers: trace parsing and property oracles that judge the IMPLEMENTATION's own traces
directly against the properties (independent of the Coq model)."""
import re

TAG = {1: "spawn", 2: "join", 3: "yield", 4: "park", 5: "unpark", 6: "rand", 7: "atomic", 8: "reset", 9: "end",
       10: "semacq", 11: "semtry", 12: "semrel", 13: "semclose", 14: "semavail", 15: "lock", 16: "trylock", 17: "unlock",
       18: "rwlock", 19: "rwtry", 20: "rwunlock"}
MAX_READS = (2 ** 32 - 1) >> 3
M64 = 2 ** 64


class Ev:
    __slots__ = ("kind", "offered", "cur", "y", "chosen", "val", "task", "tag", "vals", "clk")

    def __repr__(self):
        if self.kind == "D":
            return "D%s c%s y%s >%s" % (self.offered, self.cur, self.y, self.chosen)
        if self.kind == "R":
            return "R%d" % self.val
        return "O%d:%s:%s@%s" % (self.task, TAG.get(self.tag, self.tag), self.vals, self.clk)


def parse_trace(line):
    """returns (events, term, sched) or None when the line is not a trace"""
    evs, term, sched = [], None, None
    for tok in line.split(" "):
        if not tok:
            continue
        if tok.startswith("T="):
            term = tok[2:]
        elif tok.startswith("S="):
            sched = [x for x in tok[2:].split(",") if x]
        elif tok[0] == "D":
            m = re.match(r"D\[([0-9,]*)\]c(-|\d+)y([01])>(x|\d+)$", tok)
            if not m:
                return None
            e = Ev()
            e.kind = "D"
            e.offered = [int(x) for x in m.group(1).split(",") if x]
            e.cur = None if m.group(2) == "-" else int(m.group(2))
            e.y = m.group(3) == "1"
            e.chosen = None if m.group(4) == "x" else int(m.group(4))
            evs.append(e)
        elif tok[0] == "R":
            e = Ev()
            e.kind = "R"
            e.val = int(tok[1:])
            evs.append(e)
        elif tok[0] == "O":
            m = re.match(r"O(\d+):(\d+):([0-9,]*)@([0-9.]*)$", tok)
            if not m:
                return None
            e = Ev()
            e.kind = "O"
            e.task = int(m.group(1))
            e.tag = int(m.group(2))
            e.vals = [int(x) for x in m.group(3).split(",") if x]
            e.clk = [int(x) for x in m.group(4).split(".") if x]
            evs.append(e)
        else:
            return None
    if term is None:
        return None
    return evs, term, sched


def parse_case(case):
    w = case.split(" ")
    return {"ms": w[1], "script": w[2], "rseed": w[3], "objs": [] if w[4] == "-" else w[4].split(","),
            "bodies": [[] if b == "-" else b.split(";") for b in w[5].split("|")]}


# ---------------- C08 ----------------
def oracle_c08(evs, term):
    prev = None
    running = None
    for i, e in enumerate(evs):
        if e.kind == "D":
            if not e.offered:
                return "scheduler was offered an empty list (decision %d)" % i
            if any(a >= b for a, b in zip(e.offered, e.offered[1:])):
                return "offered list not strictly ascending: %s" % e.offered
            if e.cur != prev:
                return "current-task argument %s is not the task chosen at the previous decision (%s)" % (e.cur, prev)
            if e.chosen is None:
                if i != len(evs) - 1:
                    return "events recorded after the scheduler returned no task"
                if term != "ok":
                    return "scheduler returned no task but the run ended with %s" % term
            prev = e.chosen
            running = e.chosen
        elif e.kind == "O":
            if e.task != running:
                return "operation of task %d recorded while task %s was the one chosen" % (e.task, running)
    # the yielding flag: set exactly for the decision that follows an explicit yield request of the running task.
    # In the program language only yield_now (record 3), a park that blocks (4) and a future's yield_now (35) request
    # a yield; the record of an operation is written when the operation returns, i.e. after its decision.
    last_dec_of = {}
    for i, e in enumerate(evs):
        if e.kind == "D":
            if e.cur is not None:
                last_dec_of[e.cur] = (i, bool(e.y))
                if e.y:
                    nxt = next((x for x in evs[i + 1:] if x.kind == "O" and x.task == e.cur), None)
                    if nxt is not None and nxt.tag not in (3, 4, 35):
                        return "decision %d was taken with the yielding flag set although task %d had not requested a yield (its next completed operation has tag %d)" % (i, e.cur, nxt.tag)
        elif e.kind == "O" and e.tag == 3:
            d = last_dec_of.get(e.task)
            if d is not None and not d[1]:
                return "yield_now of task %d returned, but the decision that followed its yield request (%d) did not carry the yielding flag" % (e.task, d[0])
    return None


# ---------------- C03 ----------------
def oracle_c03(evs, term, case):
    ntasks = 1 + sum(1 for e in evs if e.kind == "O" and e.tag in (1, 31))
    ended = set(e.task for e in evs if e.kind == "O" and e.tag == 9)
    if term.startswith("deadlock:"):
        ids = [int(x) for x in term[10:-1].split(",") if x]
        exp = [t for t in range(ntasks) if t not in ended]
        # a spawned future that was aborted ends without reaching its END record (or stays blocked): either is possible
        aborted = set(e.vals[0] for e in evs if e.kind == "O" and e.tag == 33)
        must = [t for t in exp if t not in aborted]
        if not (set(must) <= set(ids) <= set(exp)) or len(set(ids)) != len(ids):
            return "deadlock report names %s, unfinished bodies are %s (aborted: %s)" % (ids, exp, sorted(aborted))
        # the last decision must not have offered a task that then ran to a non-blocked state: nothing more to check here
    if term == "ok":
        stopped = any(e.kind == "D" and e.chosen is None for e in evs)
        if case["ms"].startswith("cont"):
            stopped = True      # cannot be told apart from outside
        # detached tasks (spawned futures whose JoinHandle was dropped) are cut off, never waited for
        threads = set([0] + [e.vals[0] for e in evs if e.kind == "O" and e.tag == 1])
        missing = [t for t in sorted(threads) if t not in ended]
        if not stopped and missing:
            return "run ended normally although thread bodies %s never reached their end" % missing
    return None


# ---------------- C13 ----------------
def oracle_c13(evs, term, case, allow_draw_overrun=False):
    ms = case["ms"]
    n = int(ms.split(":")[1]) if ":" in ms else None
    steps = 0
    for e in evs:
        if e.kind == "D":
            if n is not None and steps >= n:
                return "scheduling decision made with %d steps already performed under bound %d" % (steps, n)
            if e.chosen is not None:
                steps += 1
        elif e.kind == "R":
            steps += 1
            if n is not None and steps > n and not allow_draw_overrun:
                return "random draw is step %d under bound %d" % (steps, n)
        elif e.kind == "O" and e.tag == 8:
            steps = 0
    if term == "stepbound":
        if not ms.startswith("fail"):
            return "run failed with the max-steps message without a FailAfter bound"
        if steps < n:
            return "max-steps failure after only %d steps under bound %d" % (steps, n)
    return None


# ---------------- attribution of logged events to program operations ----------------
TAG_OF_OP = {"sp": 1, "jn": 2, "yd": 3, "pk": 4, "uh": 5, "ut": 5, "rn": 6, "rs": 8, "sa": 10, "st": 11, "sr": 12, "sc": 13, "sv": 14,
             "lk": 15, "tl": 16, "ul": 17, "rd": 18, "wr": 18, "tr": 19, "tw": 19, "ru": 20, "cw": 21, "cn": 22, "ca": 22,
             "sd": 23, "ts": 23, "rc": 24, "tc": 24, "dt": 25, "dr": 26, "bw": 27, "co": 28, "ic": 29,
             "as": 31, "aw": 32, "ab": 33, "dh": 34, "ay": 35, "bo": 36, "if": 37, "lw": 38, "id": 40, "zs": 1, "qn": 42, "qp": 43, "qd": 44}


def op_tag(op):
    if op[0] == "a" and "." in op and op[1].isdigit():
        return 7
    return TAG_OF_OP.get(op[:2])


def attribute(evs, case, want_stacks=False):
    """Returns a list parallel to evs: for each O event the program operation (string) that produced it, or None
    for bookkeeping records (END, INIT, implicit guard drops, block_on markers).  Frames: each task has a stack of
    [body, pc] entries (thread body, then inline call_once / block_on bodies)."""
    bodies = case["bodies"]
    stacks = {0: [[0, 0]]}
    out = []
    for e in evs:
        if e.kind != "O":
            out.append(None)
            continue
        t = e.task
        st = stacks.get(t)
        if not st:
            out.append(None)
            continue
        # a destructor body that ran to its end is left
        while len(st) > 1 and len(st[-1]) > 2 and st[-1][2] == "dtor" and st[-1][1] >= len(bodies[st[-1][0]] if st[-1][0] < len(bodies) else []):
            st.pop()
        frame = st[-1]
        ops = bodies[frame[0]] if frame[0] < len(bodies) else []
        if e.tag == 9:
            out.append(None)
            continue
        if e.tag == 39:      # a thread-local value is dropped: its key's destructor body starts
            spec = case["objs"][e.vals[0]] if e.vals and e.vals[0] < len(case["objs"]) else ""
            d = spec.split(":")[1] if ":" in spec else "-"
            if d != "-":
                st.append([int(d), 0, "dtor"])
            out.append(None)
            continue
        if e.tag == 41:
            if e.vals:       # scope() starts: its closure runs the body named by the `zc` op
                op = ops[frame[1]] if frame[1] < len(ops) else None
                if op and op.startswith("zc"):
                    st.append([int(op.split(".")[1]), 0, "scope"])
                out.append(None)
            else:
                if len(st) > 1:
                    st.pop()
                    st[-1][1] += 1
                out.append(None)
            continue
        if e.tag == 30:      # a call_once initialiser starts: the `co` op is at the frame's pc
            op = ops[frame[1]] if frame[1] < len(ops) else None
            if op and op.startswith("co"):
                st.append([int(op.split(".")[1]), 0])
            out.append(None)
            continue
        if e.tag == 36:
            if e.vals:       # block_on starts
                op = ops[frame[1]] if frame[1] < len(ops) else None
                if op and op.startswith("bo"):
                    st.append([int(op[2:]), 0])
                out.append(None)
            else:            # block_on returns
                if len(st) > 1:
                    st.pop()
                    st[-1][1] += 1
                out.append(None)
            continue
        if e.tag in (17, 20):
            # explicit unlock if the next op is one for that object, else an implicit drop at the end of a scope
            op = ops[frame[1]] if frame[1] < len(ops) else None
            if op and op[:2] in ("ul", "ru") and int(op[2:]) == e.vals[-1]:
                frame[1] += 1
                out.append(op)
            else:
                out.append(None)
            continue
        if e.tag == 28 and len(st) > 1 and frame[1] >= len(ops):
            # call_once returns after its initialiser frame ran to the end
            st.pop()
            frame = st[-1]
            ops = bodies[frame[0]] if frame[0] < len(bodies) else []
        op = ops[frame[1]] if frame[1] < len(ops) else None
        if op is not None and op.startswith("ri") and e.tag in (24, 26):
            # `for v in rx`: every received value and the final Disconnected are records of this one operation; the drop
            # of the Receiver ends it
            if e.tag == 26:
                frame[1] += 1
            out.append(op)
            continue
        if op is None or op_tag(op) != e.tag:
            out.append(None)
            continue
        frame[1] += 1
        out.append(op)
        if e.tag in (1, 31):
            child = e.vals[0]
            stacks[child] = [[int(op.split(".")[1]) if op.startswith("zs") else int(op[2:]), 0]]
    if want_stacks:
        return out, stacks
    return out


# ---------------- C17: a wake-up (abort) issued during the latest poll must lead to another poll ----------------
def oracle_c17_wake(evs, term, case):
    """On a deadlock: a spawned future that was aborted and is stuck at an await point (its next operation is an
    await of a JoinHandle) was not polled again after the abort's wake-up, although `abort` wakes the task: the wake-up
    was lost.  Classified as F18 when, between the abort and the end of the trace, the task ran a nested poll loop
    (block_on, or a blocking acquisition such as Mutex::lock / acquire_blocking) — that loop consumes Task::woken."""
    out = []
    if not term.startswith("deadlock:"):
        return out
    ids = [int(x) for x in term[10:-1].split(",") if x]
    attr, stacks = attribute(evs, case, want_stacks=True)
    bodies = case["bodies"]
    aborts = {}
    for i, e in enumerate(evs):
        if e.kind == "O" and e.tag == 33:
            aborts.setdefault(e.vals[0], i)
    for t, i0 in aborts.items():
        if t not in ids or t not in stacks or not stacks[t]:
            continue
        fr = stacks[t][-1]
        ops = bodies[fr[0]] if fr[0] < len(bodies) else []
        nxt = ops[fr[1]] if fr[1] < len(ops) else None
        if nxt is None or nxt[:2] != "aw":
            continue
        # the task is suspended in an await: an abort issued before must have re-polled it (and cancelled it)
        nested = any(evs[j].kind == "O" and evs[j].task == t and (evs[j].tag in (36, 10, 15, 18, 21, 24, 27, 2, 4)) for j in range(i0, len(evs)))
        nested = nested or len(stacks[t]) > 1
        out.append(("C17", "task %d was aborted (record %d) and is suspended at `%s` for ever: the abort's wake-up did not lead to another poll" % (t, i0, nxt),
                    "F18" if nested else None))
    return out


# ---------------- C07: thread lifecycle, scopes, thread-locals ----------------
def oracle_c07(evs, term, case):
    """Judges the implementation's own trace: closures run once, join hands over the joined thread's value and comes
    after everything that thread does (its destructors included), scope() returns after its threads ended,
    thread-locals are per-thread, lazily initialised, destructed exactly once in initialisation order and never
    resurrected, ids and names identify the thread."""
    out = []
    objs = case["objs"]
    attr = attribute(evs, case)
    ended = {}                  # task -> index of END
    spawned = {}                # task -> index of its spawn record
    last_ev = {}                # task -> index of its last O event
    tls = {}                    # (task, key) -> ["live", value] | ["dead"]
    init_order = {}             # task -> keys in initialisation order, not yet dropped
    scope_open = {}             # task -> list of scoped tids of the innermost open scope
    ids_seen = {}
    futures = set()             # tasks spawned as futures: an aborted one never reaches the end of its body, a detached one
                                # may be cut off before Wrapper::finish has run its destructors
    ahandles = {}               # task -> tids of the futures it spawned, in order (the h of `aw<h>`)
    inline_bodies = any(op_.startswith(("bo", "co")) for b_ in case.get("bodies", []) for op_ in b_)
    W = 2 ** 64
    for i, e in enumerate(evs):
        if e.kind != "O":
            continue
        t = e.task
        op = attr[i]
        last_ev[t] = i
        if e.tag == 31:
            futures.add(e.vals[0])
            ahandles.setdefault(t, []).append(e.vals[0])
        elif e.tag == 32 and op and op.startswith("aw") and not inline_bodies:
            # an awaited JoinHandle resolves (Ok or Cancelled) only after Wrapper::finish ran the task's destructors
            # (handle numbers are per body instance: with inline bodies - block_on, call_once closures - a task runs several
            # instances and the h of `aw<h>` cannot be resolved from the trace; such programs are left to the correspondence)
            try:
                c = ahandles.get(t, [])[int(op[2:])]
            except (IndexError, ValueError):
                c = None
            if c is not None:
                left = [k for k in init_order.get(c, [])]
                if left:
                    out.append(("C07", "awaiting the JoinHandle of task %d returned before the destructors of its thread-locals %s ran" % (c, left), None))
                later = [j for j in range(i + 1, len(evs)) if evs[j].kind == "O" and evs[j].task == c]
                if later:
                    out.append(("C07", "awaiting the JoinHandle of task %d returned (%s) while the task still takes steps (record %s): the result was published before the future and its locals were dropped"
                                % (c, "Cancelled" if e.vals and e.vals[0] == 1 else "Ok", evs[later[0]].tag), None))
        if e.tag == 9:
            if t in ended:
                out.append(("C07", "task %d reached the end of its closure twice" % t, None))
            ended[t] = i
        elif e.tag == 1:
            c = e.vals[0]
            if c in spawned or c == 0:
                out.append(("C07", "thread id %d handed out twice" % c, None))
            spawned[c] = i
            if op and op.startswith("zs") and scope_open.get(t):
                scope_open[t][-1].append(c)
        elif e.tag == 2:
            c, v = e.vals[0], e.vals[1] if len(e.vals) > 1 else None
            if v != 1000 + c:
                out.append(("C07", "join on thread %d returned %s, the closure's value is %d" % (c, v, 1000 + c), None))
            if c not in ended:
                out.append(("C07", "join on thread %d returned before its closure ended" % c, None))
            left = [k for k in init_order.get(c, [])]
            if left:
                out.append(("C07", "join on thread %d returned before the destructors of its thread-locals %s ran" % (c, left), None))
            later = [j for j in range(i + 1, len(evs)) if evs[j].kind == "O" and evs[j].task == c]
            if later:
                out.append(("C07", "thread %d still runs (%s) after a join on it returned" % (c, evs[later[0]].tag), None))
        elif e.tag == 41:
            if e.vals:
                scope_open.setdefault(t, []).append([])
            else:
                kids = scope_open.get(t, [[]]).pop() if scope_open.get(t) else []
                late = [c for c in kids if c not in ended]
                if late:
                    out.append(("C07", "scope() returned while scoped threads %s had not finished" % late, None))
        elif e.tag == 38:
            key, status, old = e.vals
            init = int(objs[key][1:].split(":")[0]) if key < len(objs) and objs[key][0] == "k" else None
            add = int(op.split(".")[1]) if op and op.startswith("lw") else None
            cur = tls.get((t, key))
            if cur is None:
                if status != 1 or old != init:
                    out.append(("C07", "first access of task %d to key %d: status %d value %d (expected lazy initialisation to %s)" % (t, key, status, old, init), None))
                if status != 2:
                    tls[(t, key)] = ["live", (old + (add or 0)) % W]
                    init_order.setdefault(t, []).append(key)
            elif cur[0] == "live":
                if status != 0 or old != cur[1]:
                    out.append(("C07", "task %d sees value %d (status %d) of key %d, its own instance holds %d" % (t, old, status, key, cur[1]), None))
                if status != 2:
                    cur[1] = (old + (add or 0)) % W
            else:
                if status != 2:
                    out.append(("C07", "task %d accessed key %d during or after its destruction and got status %d (value %d) instead of an error" % (t, key, status, old), None))
                    tls[(t, key)] = ["live", (old + (add or 0)) % W]
                    init_order.setdefault(t, []).append(key)
        elif e.tag == 39:
            key, v = e.vals
            cur = tls.get((t, key))
            order = init_order.get(t, [])
            if cur is None or cur[0] != "live":
                out.append(("C07", "destructor of key %d ran in task %d without a live value (%s)" % (key, t, cur), None))
            else:
                if v != cur[1]:
                    out.append(("C07", "destructor of key %d in task %d saw %d, the task's instance held %d" % (key, t, v, cur[1]), None))
                if not order or order[0] != key:
                    out.append(("C07", "destructors of task %d out of initialisation order: key %d dropped, order is %s" % (t, key, order), None))
                if t not in ended and t not in futures:
                    out.append(("C07", "destructor of key %d ran before the closure of task %d ended" % (key, t), None))
            if key in order:
                order.remove(key)
            tls[(t, key)] = ["dead"]
        elif e.tag == 40:
            tid, name_ok = e.vals
            if tid != t:
                out.append(("C07", "thread::current().id() is %d inside task %d" % (tid, t), None))
            if name_ok != 1:
                out.append(("C07", "thread::current().name() inside task %d is not the name given at spawn" % t, None))
    if term == "ok":
        stopped = any(e.kind == "D" and e.chosen is None for e in evs) or case["ms"].startswith("cont")
        if not stopped:
            for t, order in init_order.items():
                if order and t in ended and t not in futures:
                    out.append(("C07", "thread-locals %s of task %d were never destructed although the thread finished" % (order, t), None))
            for c in spawned:
                if c not in ended:
                    out.append(("C07", "closure of thread %d never ran to its end in a run that ended normally" % c, None))
    return out


# ---------------- C05 / C06 / C17: condvar, channels, barrier, once, futures ----------------
def oracle_sync2(evs, term, case):
    out = []
    objs = case["objs"]
    attr = attribute(evs, case)
    chans = {}
    for i, o in enumerate(objs):
        if o[0] == "c":
            chans[i] = {"bound": None if o[1:] == "u" else int(o[1:]), "q": [], "tx_alive": 3, "rx_alive": True}
    last_op_idx = {}            # task -> index of its previous O event
    notifies = {}               # cv -> list of (index, all?)
    bar_returns = {}
    once_inits = {}
    once_done = {}
    aborted = set()
    finished_async = {}
    body_of_task = {0: 0}
    for i, e in enumerate(evs):
        if e.kind != "O":
            continue
        op = attr[i]
        t = e.task
        if e.tag == 30:
            # which once: the `co` op of the caller
            pass
        if op is not None:
            if e.tag in (1, 31):
                body_of_task[e.vals[0]] = int(op.split('.')[1]) if op.startswith('zs') else int(op[2:])
            if e.tag == 22:
                cv = int(op[2:])
                notifies.setdefault(cv, []).append((i, e.vals[0] == 1))
            elif e.tag == 21:
                cv = int(op[2:].split(".")[0])
                since = last_op_idx.get(t, -1)
                if not any(j > since for j, _ in notifies.get(cv, [])):
                    out.append(("C05", "Condvar::wait on v%d by task %d returned although no notify was issued since the task's previous operation" % (cv, t), None))
            elif e.tag == 23:
                ch = int(op[2:].split(".")[0])
                c = chans[ch]
                v = int(op.split(".")[2])
                r = e.vals[0]
                cap = None if c["bound"] is None else max(c["bound"], 1)
                if r == 0:
                    c["q"].append(v)
                    if cap is not None and len(c["q"]) > cap:
                        out.append(("C06", "channel c%d holds %d messages, capacity %d" % (ch, len(c["q"]), cap), None))
                    if not c["rx_alive"]:
                        out.append(("C06", "send on c%d succeeded after the receiver was dropped" % ch, None))
                elif r == 2 and c["rx_alive"]:
                    out.append(("C06", "send on c%d reported disconnection while the receiver is alive" % ch, None))
                elif r == 1 and cap is not None and len(c["q"]) < cap and c["bound"] != 0:
                    # Full although space exists: allowed only if blocked senders are queued ahead (FIFO fairness); cannot be seen here
                    pass
            elif e.tag == 24:
                ch = int(op[2:])      # rc / tc / ri
                c = chans[ch]
                r = e.vals[0]
                if r == 0:
                    if not c["q"]:
                        out.append(("C06", "recv on c%d returned %d but nothing is in flight" % (ch, e.vals[1]), None))
                    elif c["q"][0] != e.vals[1]:
                        out.append(("C06", "recv on c%d returned %d, the oldest undelivered message is %d" % (ch, e.vals[1], c["q"][0]), None))
                        if e.vals[1] in c["q"]:
                            c["q"].remove(e.vals[1])
                    else:
                        c["q"].pop(0)
                elif r == 2:
                    if c["tx_alive"] > 0:
                        out.append(("C06", "recv on c%d reported disconnection while %d senders are alive" % (ch, c["tx_alive"]), None))
                    elif c["q"]:
                        out.append(("C06", "recv on c%d reported disconnection with %d messages undelivered" % (ch, len(c["q"])), None))
                elif r == 1 and c["q"] and c["bound"] != 0:
                    out.append(("C06", "try_recv on c%d reported Empty with %d messages queued" % (ch, len(c["q"])), None))
            elif e.tag == 25:
                chans[int(op[2:].split(".")[0])]["tx_alive"] -= 1
            elif e.tag == 26:
                chans[int(op[2:])]["rx_alive"] = False
            elif e.tag == 27:
                b = int(op[2:])
                bar_returns.setdefault(b, []).append(e.vals[0])
            elif e.tag == 28:
                o = int(op[2:].split(".")[0])
                once_done[o] = True
            elif e.tag == 29:
                o = int(op[2:])
                if e.vals[0] == 1 and not once_inits.get("any"):
                    out.append(("C05", "Once o%d reported completed before any initialiser ran" % o, None))
            elif e.tag == 33:
                aborted.add(e.vals[0])
            elif e.tag == 32:
                # await result: value must be the body index of the awaited task; Cancelled only after an abort
                pass
        if e.tag == 30:
            # initialiser of some Once started in task t: find the enclosing co op
            st_op = None
            # the attribute() walker pushed a frame; recover the once id from the previous frame's current op
            # (cheap re-derivation: scan back for the task's pending `co`)
            for o, ob in enumerate(objs):
                pass
            once_inits.setdefault("any", 0)
            once_inits["any"] += 1
        if e.tag == 32 and op is not None:
            h = int(op[2:])
            if e.vals[0] == 1:
                # Cancelled: some abort must have been issued in this execution
                if not aborted:
                    out.append(("C17", "JoinHandle reported Cancelled but no abort was ever issued", None))
        last_op_idx[t] = i
    # barrier: with everything finished, leaders = returns / bound
    for b, rets in bar_returns.items():
        bound = int(objs[b][1:])
        if bound >= 1 and term == "ok" and not any(e.kind == "D" and e.chosen is None for e in evs) and not case["ms"].startswith("cont"):
            if len(rets) % bound == 0 and sum(rets) != len(rets) // bound:
                out.append(("C05", "barrier b%d: %d waits returned in groups of %d but %d leaders were reported" % (b, len(rets), bound, sum(rets)), None))
        if sum(rets) * bound > len(rets) + bound - 1:
            out.append(("C05", "barrier b%d: %d leaders for %d returns with bound %d" % (b, sum(rets), len(rets), bound), None))
    # once: at most one initialiser per Once object per execution (one Once object per program in generated cases)
    n_once = sum(1 for o in objs if o == "o")
    if n_once and once_inits.get("any", 0) > n_once:
        out.append(("C05", "%d Once initialisers ran for %d Once objects" % (once_inits["any"], n_once), None))
    return out


# ---------------- C04 / C18: abstract objects judged on the completion order of operations ----------------
def oracle_objects(evs, term, case, findings=None):
    """Replays the logged results of operations, in the order they completed, on plain abstract objects.
    Returns a list of (property, message, finding_tag or None)."""
    out = []
    objs = case["objs"]
    st = {}
    for i, o in enumerate(objs):
        if o[0] == "a":
            st[i] = int(o[1:])
        elif o[0] == "m":
            st[i] = {"holder": None, "poisoned": False}
        elif o[0] == "w":
            st[i] = {"writer": None, "readers": [], "poisoned": False}
        elif o[0] == "s":
            n, f = o[1:].split(":")
            st[i] = {"avail": int(n), "closed": False, "fair": f == "f"}
    attr, stacks = attribute(evs, case, want_stacks=True)
    bodies = case["bodies"]

    def pending_op(h, i):
        # the operation task h is executing at event i: the op of its next attributed event, else its final frame's op
        for j in range(i + 1, len(evs)):
            if evs[j].kind == "O" and evs[j].task == h and attr[j] is not None:
                return attr[j]
        fr = stacks.get(h, [[0, 0]])[-1]
        ops_ = bodies[fr[0]] if fr[0] < len(bodies) else []
        return ops_[fr[1]] if fr[1] < len(ops_) else None

    # programs that handle Acquire futures by hand (q-operations) take and give back permits outside the counted
    # operations, and their queued futures block later requests on a fair semaphore: the counting oracle does not apply
    # (those programs are judged by the correspondence with the verified semaphore model)
    manual_acquire = any(op.startswith("q") and op[:2] in ("qn", "qp", "qd") for b in bodies for op in b)
    aborted = set()       # futures on which abort() was called: their guards are released without a record when they are cancelled
    for idx, e in enumerate(evs):
        if e.kind != "O":
            continue
        t = e.task
        op = attr[idx]
        if e.tag == 33 and e.vals:
            aborted.add(e.vals[0])
        if e.tag == 17:
            o = e.vals[0]
            if st[o]["holder"] != t:
                out.append(("C04", "guard of m%d dropped by task %d which does not hold it" % (o, t), None))
            st[o]["holder"] = None
            continue
        if e.tag == 20:
            w, o = e.vals
            s_ = st[o]
            if w:
                if s_["writer"] != t:
                    out.append(("C04", "write guard of w%d dropped by task %d which does not hold it" % (o, t), None))
                s_["writer"] = None
            elif t in s_["readers"]:
                s_["readers"].remove(t)
            else:
                out.append(("C04", "read guard of w%d dropped by task %d which does not hold it" % (o, t), None))
            continue
        if op is None:
            continue
        if e.tag == 21:
            # Condvar::wait returned: the mutex is held again by the waiter
            m_ = int(op.split(".")[1])
            if st[m_]["holder"] not in (None, t):
                po = pending_op(st[m_]["holder"], idx)
                if not (po and po.startswith("cw") and int(po.split(".")[1]) == m_):
                    out.append(("C04", "Condvar::wait returned to task %d with mutex m%d while task %s holds it" % (t, m_, st[m_]["holder"]), None))
            st[m_]["holder"] = t
            continue
        if e.tag == 7:
            a = int(op[1:].split(".")[0])
            parts = op.split(".")
            k = parts[1]
            old = st[a]
            exp_ok, exp_ret, new = 1, old, old
            v = int(parts[2]) if len(parts) > 2 else 0
            if k == "ld":
                pass
            elif k == "st":
                exp_ret, new = 0, v
            elif k == "sw":
                new = v
            elif k == "cas":
                if old == v:
                    new = int(parts[3])
                else:
                    exp_ok = 0
            elif k == "add":
                new = (old + v) % M64
            elif k == "sub":
                new = (old - v) % M64
            elif k == "and":
                new = old & v
            elif k == "nand":
                new = (~(old & v)) % M64
            elif k == "or":
                new = old | v
            elif k == "xor":
                new = old ^ v
            elif k == "max":
                new = max(old, v)
            elif k == "min":
                new = min(old, v)
            if e.vals != [exp_ok, exp_ret]:
                out.append(("C04", "atomic %s on a%d returned %s; in the order of completed operations std's AtomicU64 returns %s" % (op, a, e.vals, [exp_ok, exp_ret]), None))
            st[a] = new
        elif e.tag in (15, 16):
            o = int(op[2:])
            s = st[o]
            res = e.vals[0]
            if res == 2:          # WouldBlock
                if s["holder"] is None:
                    out.append(("C04", "try_lock on m%d reported WouldBlock although no task holds it" % o, None))
            else:
                if s["holder"] is not None and s["holder"] not in aborted:
                    po = pending_op(s["holder"], idx)
                    # a holder inside Condvar::wait has released the mutex for the duration of the wait
                    if not (po and po.startswith("cw") and int(po.split(".")[1]) == o):
                        out.append(("C04", "task %d obtained mutex m%d while task %s holds it" % (t, o, s["holder"]), None))
                s["holder"] = t
                if (res == 1) != s["poisoned"]:
                    out.append(("C04", "mutex m%d poisoned flag reported %s, expected %s" % (o, res == 1, s["poisoned"]), None))
        elif e.tag in (18, 19):
            o = int(op[2:])
            s = st[o]
            w, res = e.vals
            unsure = (s["writer"] in aborted) or any(x in aborted for x in s["readers"])   # a cancelled future may or may not have released yet
            free_for = (s["writer"] is None and not s["readers"]) if w else (s["writer"] is None)
            if unsure and res != 2:
                if s["writer"] in aborted:
                    s["writer"] = None
                s["readers"] = [x for x in s["readers"] if x not in aborted]
                free_for = True
            if res == 2:
                if free_for and not unsure:
                    if (not w) and t in s["readers"]:
                        pass      # re-entrant try_read: failing is permitted ("fail or are diagnosed")
                    else:
                        reent = any(t in x["readers"] for x in [s])
                        out.append(("C04", "try_%s on w%d reported WouldBlock although the lock is available (writer=%s readers=%s)" % ("write" if w else "read", o, s["writer"], s["readers"]),
                                    "F3" if s.get("leaked") else None))
            else:
                if not free_for:
                    out.append(("C04", "task %d obtained w%d for %s while writer=%s readers=%s" % (t, o, "writing" if w else "reading", s["writer"], s["readers"]), None))
                if w:
                    s["writer"] = t
                else:
                    s["readers"].append(t)
            if res == 2 and (not w) and t in s["readers"] and s["writer"] is None:
                s["leaked"] = True     # a re-entrant try_read happened on this lock (relevant to finding F3)
        elif e.tag in (10, 11, 12, 13, 14):
            o = int(op[2:].split(".")[0])
            s = st[o]
            k = int(op.split(".")[1]) if "." in op else 0
            if e.tag == 10:
                if e.vals[0] == 1:
                    s["avail"] -= k
                    if s["avail"] < 0:
                        out.append(("C18", "acquire(%d) on s%d completed with only %d permits available" % (k, o, s["avail"] + k), None))
                elif not s["closed"]:
                    out.append(("C18", "acquire on s%d failed although the semaphore is not closed" % o, None))
            elif e.tag == 11:
                r = e.vals[0]
                if r == 0:
                    s["avail"] -= k
                    if s["avail"] < 0:
                        out.append(("C18", "try_acquire(%d) on s%d succeeded with only %d permits available" % (k, o, s["avail"] + k), None))
                elif r == 2 and not s["closed"]:
                    out.append(("C18", "try_acquire on s%d reported Closed but it was never closed" % o, None))
                elif r == 1 and s["closed"]:
                    out.append(("C18", "try_acquire on s%d reported NoPermits although it is closed" % o, None))
            elif e.tag == 12:
                s["avail"] += k
            elif e.tag == 13:
                s["closed"] = True
            elif e.tag == 14:
                # permits granted to a queued waiter leave the pool before that waiter's acquire returns
                if e.vals[0] > s["avail"]:
                    out.append(("C18", "available_permits() of s%d is %d, more than initial + released - acquired = %d" % (o, e.vals[0], s["avail"]), None))
                if (e.vals[1] == 1) != s["closed"]:
                    out.append(("C18", "is_closed() of s%d is %s, expected %s" % (o, e.vals[1], s["closed"]), None))
    # ---- C03 at the abstract level: a reported deadlock must be a deadlock of the abstract objects ----
    if term.startswith("deadlock:"):
        ntasks = 1 + sum(1 for e in evs if e.kind == "O" and e.tag in (1, 31))
        ended = set(e.task for e in evs if e.kind == "O" and e.tag == 9)
        pend_sem = {}
        reported = set(int(x) for x in term[10:-1].split(",") if x)
        for t in range(ntasks):
            if t in ended or t not in stacks or t not in reported:
                continue
            frame = stacks[t][-1]
            ops = bodies[frame[0]] if frame[0] < len(bodies) else []
            if frame[1] >= len(ops):
                continue
            op = ops[frame[1]]
            why = None
            if op.startswith("lk"):
                o = int(op[2:])
                if st[o]["holder"] is None:
                    why = "lock of free mutex m%d" % o
            elif op.startswith("rd") or op.startswith("wr"):
                o = int(op[2:])
                s_ = st[o]
                if s_["writer"] is None and (op.startswith("rd") or not s_["readers"]):
                    why = "%s of available rwlock w%d (writer=%s readers=%s)" % (op[:2], o, s_["writer"], s_["readers"])
            elif op.startswith("sa"):
                o, k = op[2:].split(".")
                pend_sem.setdefault(int(o), []).append((t, int(k)))
            elif op.startswith("jn"):
                pass
            if why:
                out.append(("C03", "deadlock reported although task %d is blocked in an enabled operation: %s" % (t, why),
                            "F3" if ("w" in op[:1] or op[:2] in ("rd", "wr")) and st[int(op[2:])].get("leaked") else None))
        for o, lst in pend_sem.items():
            s_ = st[o]
            if s_["closed"]:
                out.append(("C03", "deadlock reported although tasks %s wait on closed semaphore s%d" % ([t for t, _ in lst], o), None))
            elif lst and all(k <= s_["avail"] for _, k in lst) and s_["avail"] > 0:
                out.append(("C03", "deadlock reported although every acquire pending on s%d fits in the %d available permits" % (o, s_["avail"]), None))
    if manual_acquire:
        out = [x for x in out if not (x[0] == "C18" or "pending on s" in x[1] or "semaphore" in x[1])]
    # ---- a task named in a deadlock report must be inside an operation that can block, and not waiting for something
    # that has already happened ----
    if term.startswith("deadlock:"):
        NONBLOCKING = {"yd", "sp", "st", "tl", "tr", "tw", "sr", "sc", "sv", "ul", "ru", "cn", "ca", "uh", "ut", "id", "rn", "rs", "ts", "tc",
                       "dt", "dr", "qn", "qp", "qd", "ic", "as", "ab", "dh", "if", "ay", "atomic"}
        ntasks = 1 + sum(1 for e in evs if e.kind == "O" and e.tag in (1, 31))
        ended = set(e.task for e in evs if e.kind == "O" and e.tag == 9)
        reported = set(int(x) for x in term[10:-1].split(",") if x)
        # hand-held Acquire futures: slot -> (semaphore, task whose poll left it queued)
        slots = {}
        aspawned = {}
        ever_queued = set()      # tasks whose hand-made poll left an Acquire queued on an unfair semaphore
        for idx, e in enumerate(evs):
            if e.kind != "O":
                continue
            if e.tag == 31 and e.vals:
                aspawned.setdefault(e.task, []).append(e.vals[0])
            op_ = attr[idx]
            if e.tag == 42 and op_ and op_.startswith("qn"):
                f_ = op_[2:].split(".")
                slots[e.vals[0]] = {"sem": int(f_[2]), "task": None}
            elif e.tag == 43 and e.vals[0] in slots:
                slots[e.vals[0]]["task"] = e.task if e.vals[1] == 2 else None
                sem_ = st.get(slots[e.vals[0]]["sem"])
                if e.vals[1] == 2 and isinstance(sem_, dict) and not sem_.get("fair", True):
                    ever_queued.add(e.task)
            elif e.tag == 44:
                slots.pop(e.vals[0], None)

        def stale_waiter(t):
            # F35: the task left a hand-polled Acquire queued on an unfair semaphore (the waiter may since have been handed
            # to another poller: the task was blocked while the waiter still named it)
            return t in ever_queued

        for t in sorted(reported):
            if t in ended or t not in stacks or t >= ntasks:
                continue
            frame = stacks[t][-1]
            ops = bodies[frame[0]] if frame[0] < len(bodies) else []
            if frame[1] >= len(ops):
                continue
            op = ops[frame[1]]
            code = "atomic" if (op[0] == "a" and len(op) > 1 and op[1].isdigit()) else op[:2]
            tag = "F35" if stale_waiter(t) else None
            if code in NONBLOCKING:
                msg_ = "deadlock reported with task %d blocked, but its next operation '%s' cannot block: the task was not waiting for anything" % (t, op)
                out.append(("C18" if tag else "C03", msg_, tag))
                if tag:
                    out.append(("C03x", msg_, tag))        # the same false deadlock, for the check of the deadlock verdicts (C03)
            elif code == "aw":
                h = int(op[2:])
                tgt = aspawned.get(t, [])
                if h < len(tgt) and tgt[h] in ended:
                    msg_ = "deadlock reported with task %d blocked awaiting the JoinHandle of task %d, which has finished: the wake-up of its completion was lost" % (t, tgt[h])
                    out.append(("C17", msg_, tag))
                    out.append(("C03x", msg_, tag))
    return out


def oracle_manual_panic(evs, term, case):
    """A program without a panic operation that ends with a panic of a task which left a hand-polled Acquire queued and then
    blocked in another primitive: the semaphore's release/close resumed it there (F35, release side)."""
    if not term.startswith("panic:") or any(op.startswith("pn") for b in case["bodies"] for op in b):
        return []
    try:
        t = int(term.split(":")[1])
    except ValueError:
        return []
    attr, stacks = attribute(evs, case, want_stacks=True)
    queued = False
    for idx, e in enumerate(evs):
        if e.kind == "O" and e.tag == 43 and e.task == t and len(e.vals) > 1 and e.vals[1] == 2:
            queued = True
    if not queued or t not in stacks:
        return []
    frame = stacks[t][-1]
    bodies = case["bodies"]
    ops = bodies[frame[0]] if frame[0] < len(bodies) else []
    op = ops[frame[1]] if frame[1] < len(ops) else None
    if op and op[:2] in ("rc", "cw", "jn", "bw", "sd", "ri", "aw", "bo"):
        return [("C18", "task %d panicked inside '%s' (no panic operation in the program): it had left a hand-polled Acquire queued, and the semaphore's release resumed it while it was blocked there" % (t, op), "F35")]
    return []


# ---------------- C15: vector clocks vs happens-before derived from the API-level edges ----------------
def vle(a, b):
    """VectorClock's PartialOrd `a <= b`: length rule plus pointwise comparison over the common prefix"""
    if len(a) > len(b):
        return False
    return all(x <= y for x, y in zip(a, b))


def oracle_c15(evs, term, case):
    """For every direct happens-before edge e1 -> e2 derivable from the log (program order, spawn, join, unlock->lock,
    send->recv, atomic write->read, release->acquire...), clk(e2) must dominate clk(e1); each task's own clock only grows."""
    out = []
    attr = attribute(evs, case)
    last = {}                 # task -> index of its last O event
    first_of = {}             # child task -> spawn event index of parent
    last_unlock = {}          # lock object -> list of (write-)unlock event indices
    last_runlock = {}         # rwlock object -> list of read-unlock event indices
    writes = {}               # atomic object -> list of write event indices
    sends = {}                # channel -> list of send event indices (undelivered)
    releases = {}             # sem -> list of release indices
    edges = []

    def edge(i, j, why):
        edges.append((i, j, why))

    for i, e in enumerate(evs):
        if e.kind != "O":
            continue
        t = e.task
        op = attr[i]
        if t in last:
            edge(last[t], i, "program order")
        elif t in first_of:
            edge(first_of[t], i, "spawn -> child start")
        last[t] = i
        if e.tag in (1, 31) and op is not None:
            first_of[e.vals[0]] = i
        if e.tag == 2 and op is not None:
            c = e.vals[0]
            if c in last:
                edge(last[c], i, "child end -> join")
        if e.tag == 17:
            last_unlock.setdefault(e.vals[0], []).append(i)
        if e.tag == 20:
            # a read guard's release orders only later writers; a write guard's release orders every later lock
            (last_unlock if e.vals[0] == 1 else last_runlock).setdefault(e.vals[1], []).append(i)
        if op is None:
            continue
        if e.tag in (15, 16) and e.vals[0] != 2:
            o = int(op[2:])
            for j in last_unlock.get(o, []):
                edge(j, i, "unlock -> later lock")
        if e.tag == 21:
            o = int(op.split(".")[1])
            for j in last_unlock.get(o, []):
                edge(j, i, "unlock -> later lock (condvar re-lock)")
        if e.tag in (18, 19) and e.vals[1] != 2:
            o = int(op[2:])
            for j in last_unlock.get(o, []):
                edge(j, i, "rwlock write unlock -> later lock")
            if e.vals[0] == 1:
                for j in last_runlock.get(o, []):
                    edge(j, i, "rwlock read unlock -> later write lock")
        if e.tag == 7:
            a = int(op[1:].split(".")[0])
            kind = op.split(".")[1]
            is_write = kind != "ld" and not (kind == "cas" and e.vals[0] == 0)
            if kind != "st":
                for j in writes.get(a, []):
                    edge(j, i, "atomic write -> later read/rmw")
            if is_write:
                writes.setdefault(a, []).append(i)
        if e.tag == 23 and e.vals[0] == 0:
            ch = int(op[2:].split(".")[0])
            sends.setdefault(ch, []).append(i)
        if e.tag == 24 and e.vals[0] == 0:
            ch = int(op[2:])
            if sends.get(ch):
                edge(sends[ch].pop(0), i, "send -> matching receive" + ("" if case["objs"][ch] == "cu" else " (bounded)"))
        if e.tag == 12:
            o = int(op[2:].split(".")[0])
            releases.setdefault(o, []).append(i)
    for i, j, why in edges:
        a, b = evs[i].clk, evs[j].clk
        if not vle(a, b):
            tag = None
            if why.endswith("(bounded)"):
                # known finding F19: a send on a bounded or rendezvous channel ticks the sender's own clock entry once more
                # after the message was timestamped; everything else must still be dominated
                s_ = evs[i].task
                a2 = list(a)
                if s_ < len(a2) and a2[s_] >= 1:
                    a2[s_] -= 1
                    if vle(a2, b):
                        tag = "F19"
            out.append(("C15", "%s: clock %s of task %d's operation is not dominated by clock %s of task %d's later operation" % (why, a, evs[i].task, b, evs[j].task), tag))
            if len(out) >= 3:
                break
    return out


# ---------------- C18: arrival order of hand-polled Acquire futures on strictly fair semaphores ----------------
def oracle_acq_fifo(evs, term, case):
    """Records 42 [slot] (Acquire created), 43 [slot, 0 Ready | 1 Closed | 2 Pending] (one poll), 44 [slot] (dropped); the
    semaphore is named by the operation (q<n|p|d><table>.<slot>.<sem>).  A request enters the queue of a strictly fair
    semaphore at its first Pending poll and is granted in that order: if slot x becomes Ready while a slot y that was queued
    before x arrived has not been dropped and is still Pending at its next poll, x has overtaken y.  (Grants are never
    revoked, so a y granted before x completed would be Ready at its next poll.  Requests of blocking acquires are invisible
    here and only add waiters.)  By design a queued waiter whose registering task has FINISHED is stale and is discarded from
    the front of the queue (batch_semaphore.rs, unblock_waiters_from_front): such a y is no witness."""
    out = []
    attr = attribute(evs, case)
    objs = case["objs"]
    polls = {}       # (sem, slot) -> list of (pos, res, task)
    drops = {}
    ended = {}       # task -> position of the end of its body
    for i, e in enumerate(evs):
        if e.kind != "O":
            continue
        if e.tag == 9:
            ended[e.task] = i
            continue
        if e.tag not in (42, 43, 44):
            continue
        op = attr[i]
        if not op or not op.startswith("q"):
            continue
        f = op[2:].split(".")
        try:
            sem = int(f[2])
        except (IndexError, ValueError):
            continue
        if sem >= len(objs) or not objs[sem].startswith("s") or not objs[sem].endswith(":f"):
            continue
        key = (sem, e.vals[0])
        if e.tag == 42:
            polls[key] = []
            drops.pop(key, None)
        elif e.tag == 43 and len(e.vals) > 1:
            polls.setdefault(key, []).append((i, e.vals[1], e.task))
        else:
            drops[key] = i
    for (sem, x), px in polls.items():
        ready = [p for p, r, _ in px if r == 0]
        if not ready:
            continue
        p_ready = ready[0]
        arrival = px[0][0]
        for (sem2, y), py in polls.items():
            if sem2 != sem or y == x or not py:
                continue
            fp = next(((p, t) for p, r, t in py if r == 2), None)
            if fp is None or fp[0] > arrival:
                continue
            if any(p < p_ready and r in (0, 1) for p, r, _ in py):
                continue                      # y was served or failed before
            dy = drops.get((sem, y))
            if dy is not None and dy < p_ready:
                continue
            nxt = next(((p, r) for p, r, _ in py if p > p_ready), None)
            if nxt is None or nxt[1] != 2 or (dy is not None and dy < nxt[0]):
                continue
            # the tasks that polled y while it was queued: if any of them has finished before y's next poll, y may have been
            # discarded as stale and re-queued
            pollers = {t for p, r, t in py if p <= nxt[0]}
            if any(t in ended and ended[t] < nxt[0] for t in pollers):
                continue
            out.append(("C18", "strictly fair semaphore %d: the request in slot %d (arrived at event %d) was granted at event %d while the request in slot %d, queued since event %d by a task "
                               "that is still running, was still waiting at its next poll (event %d): a later request overtook a queued one" % (sem, x, arrival, p_ready, y, fp[0], nxt[0]), None))
            return out
    return out
