"""C17 — async executor: no lost wake-up, each task result delivered exactly once."""
from progcheck import run_prog_check

PROPS = ["Props/C17.v"]
RULE = ("C17: programs spawning futures (spawn_local), awaiting / aborting / detaching their JoinHandles from threads (block_on) and from other futures, yield_now().await, nested block_on, "
        "futures holding locks when aborted; oracle on the crate's traces: Cancelled only after an abort, deadlock reports consistent with aborted/unfinished tasks, detached tasks never waited for.")


def run(tier):
    feats = ("spawn", "join", "yield", "atomic", "mutex", "sem", "async", "async", "async", "rand", "park")
    res = run_prog_check("C17", PROPS, tier, ["c03", "objects:C03:C04:C17", "sync2:C17", "c17wake", "c07await"], features=feats, n_quick=4000, n_thorough=80000, rule=RULE, scenarios=(1500, 30000), lifecycle=(900, 12000), focus=["mutex", "sem", "park"], focus_n=(1000, 20000), exhaustive=["sem", "mutex", "park"], exh_n=(20, 200))
    if isinstance(res, int):
        return res
    ctx, cases, mo, io = res
    # directed scenario the program language cannot express (JoinHandles are task-local there): a JoinHandle polled once by
    # one task and then awaited by another must wake the last poller
    probes = ["probe jhmove 0"]
    po = ctx.run_impl("prog", probes)
    ctx.evaluations += len(probes)
    for c, o in zip(probes, po):
        if not o.startswith("PROBE OK"):
            ctx.violation({"layer": "prog", "cases": [c], "implementation_answer": o,
                           "why": "a JoinHandle that was polled by one task and is then awaited by another never resolves: the completion wakes a task that no longer awaits it"})
    ctx.dist("probes.jhmove", len(probes))
    # "polled again after any wake of its waker, whichever task issues the wake" presupposes that the executor's own leaf
    # futures wake the waker they were polled with: each is awaited through a combinator that polls its child with a waker of
    # its own and re-polls only after that waker fired (FuturesUnordered style), under exhaustive DFS
    sub = ["tokprobe subwaker 0", "tokprobe subwaker 1", "tokprobe subwaker 5"]
    so = ctx.run_impl("tok", sub)
    ctx.evaluations += len(sub)
    for c, o in zip(sub, so):
        if not o.startswith("PROBE OK"):
            ctx.violation({"layer": "tok", "cases": [c], "implementation_answer": o,
                           "why": "a leaf future of the executor (yield_now / JoinHandle) awaited through a sub-waker combinator never completes: it does not wake the waker it was polled with"})
    ctx.dist("probes.subwaker", len(sub))
    return ctx.finish()
