//! vharness <layer>: reads one case per line on stdin, runs it on the real Shuttle crates,
//! prints one canonical result line per case.  No oracle logic lives here.
mod l_clock;
mod l_codec;
mod l_history;
mod l_pl;
mod l_tok;
mod l_prog;
mod l_sched;

use std::io::{BufRead, Write};

fn main() {
    let layer = std::env::args().nth(1).unwrap_or_default();
    // panics inside cases are caught and classified; keep stderr quiet
    if std::env::var("VH_HOOK").is_err() {
        std::panic::set_hook(Box::new(|_| {}));
    }
    if layer == "history" {
        let dir = std::env::args().nth(2).unwrap_or_else(|| ".".to_string());
        l_history::main_history(&dir);
        return;
    }
    let stdin = std::io::stdin();
    let stdout = std::io::stdout();
    let mut out = stdout.lock();
    for line in stdin.lock().lines() {
        let line = line.unwrap();
        if line.is_empty() || line.starts_with('#') {
            continue;
        }
        let words: Vec<&str> = line.split(' ').filter(|w| !w.is_empty()).collect();
        let res = match layer.as_str() {
            "codec" => l_codec::run(&words),
            "prog" => l_prog::run(&words),
            "sched" => l_sched::run(&words),
            "clock" => l_clock::run(&words),
            "pl" => l_pl::run(&words),
            "tok" => l_tok::run(&words),
            _ => {
                eprintln!("usage: vharness <codec>");
                std::process::exit(2);
            }
        };
        writeln!(out, "{}", res).unwrap();
        // A task that panicked while holding a guard can be abandoned in the middle of unwinding when the
        // execution fails for another reason first; the thread's panic count then never returns to zero
        // (see known finding F13).  Later cases must not inherit that state: ask for a fresh process.
        if probe::stuck() {
            writeln!(out, "RESTART").unwrap();
            out.flush().unwrap();
            std::process::exit(0);
        }
    }
}

mod probe {
    pub fn stuck() -> bool {
        std::thread::panicking()
    }
}

pub fn split_list(s: &str, sep: char) -> Vec<&str> {
    if s == "-" || s.is_empty() {
        vec![]
    } else {
        s.split(sep).collect()
    }
}
