//! codec layer: `ser <seed> <steps>` | `deser <codepoints>` (formats as in ocaml/l_codec.ml)
use shuttle_engine::scheduler::serialization::{deserialize_schedule, serialize_schedule};
use shuttle_engine::scheduler::{Schedule, ScheduleStep, TaskId};
use std::panic::{catch_unwind, AssertUnwindSafe};

fn show_steps(steps: &[ScheduleStep]) -> String {
    if steps.is_empty() {
        return "-".to_string();
    }
    steps
        .iter()
        .map(|s| match s {
            ScheduleStep::Random => "r".to_string(),
            ScheduleStep::Task(t) => format!("t{}", usize::from(*t)),
        })
        .collect::<Vec<_>>()
        .join(",")
}

pub fn run(words: &[&str]) -> String {
    match words {
        ["ser", seed, steps] => {
            let seed: u64 = seed.parse().unwrap();
            let steps: Vec<ScheduleStep> = crate::split_list(steps, ',')
                .iter()
                .map(|w| {
                    if *w == "r" {
                        ScheduleStep::Random
                    } else {
                        ScheduleStep::Task(TaskId::from(w[1..].parse::<usize>().unwrap()))
                    }
                })
                .collect();
            let sch = Schedule { seed, steps };
            match catch_unwind(AssertUnwindSafe(|| serialize_schedule(&sch))) {
                Ok(s) => format!("S {}", s.replace('\n', "|")),
                Err(_) => "C".to_string(),
            }
        }
        ["deser", cps] => {
            let text: String = crate::split_list(cps, ',')
                .iter()
                .map(|w| char::from_u32(w.parse::<u32>().unwrap()).expect("scalar value"))
                .collect();
            match catch_unwind(AssertUnwindSafe(|| deserialize_schedule(&text))) {
                Ok(Some(s)) => format!("D {} {}", s.seed, show_steps(&s.steps)),
                Ok(None) => "I".to_string(),
                Err(_) => "C".to_string(),
            }
        }
        _ => "ERR bad case".to_string(),
    }
}
