//! prog layer: runs a `Prog` program on the real Shuttle runtime under a scripted scheduler and
//! prints the decision / draw / op trace in the same canonical form as ocaml/l_prog.ml.
use shuttle::sync::atomic::{AtomicU64, Ordering};
use shuttle::thread;
use shuttle_engine::future::batch_semaphore::{BatchSemaphore, Fairness, TryAcquireError};
use shuttle_engine::runtime::execution::CurrentSchedule;
use shuttle_engine::runtime::runner::Runner;
use shuttle_engine::scheduler::{Schedule, ScheduleStep, Scheduler, Task, TaskId};
use shuttle_engine::{Config, FailurePersistence, MaxSteps};
use std::cell::{Cell, RefCell};
use std::panic::{catch_unwind, AssertUnwindSafe};
use std::sync::Arc;

thread_local! {
    static LOG: RefCell<Vec<String>> = const { RefCell::new(Vec::new()) };
    static LAST_TASK: Cell<usize> = const { Cell::new(0) };
}

fn log(s: String) {
    LOG.with(|l| l.borrow_mut().push(s));
}

// ---------------- the scripted scheduler ----------------
pub struct Scripted {
    script: Vec<Option<usize>>,
    pos: usize,
    rnd: u64,
    started: bool,
}

impl Scheduler for Scripted {
    fn new_execution(&mut self) -> Option<Schedule> {
        if self.started {
            None
        } else {
            self.started = true;
            Some(Schedule::new(0))
        }
    }

    fn next_task(&mut self, runnable: &[&Task], current: Option<TaskId>, is_yielding: bool) -> Option<TaskId> {
        let ids: Vec<usize> = runnable.iter().map(|t| usize::from(t.id())).collect();
        let choice = if self.pos >= self.script.len() {
            ids.first().copied()
        } else {
            let c = self.script[self.pos];
            self.pos += 1;
            c.map(|i| ids[i % ids.len()])
        };
        log(format!(
            "D[{}]c{}y{}>{}",
            ids.iter().map(|i| i.to_string()).collect::<Vec<_>>().join(","),
            current.map(|c| usize::from(c).to_string()).unwrap_or("-".into()),
            is_yielding as u8,
            choice.map(|c| c.to_string()).unwrap_or("x".into())
        ));
        choice.map(TaskId::from)
    }

    fn next_u64(&mut self) -> u64 {
        self.rnd = self.rnd.wrapping_mul(6364136223846793005).wrapping_add(1442695040888963407);
        log(format!("R{}", self.rnd));
        self.rnd
    }
}

// ---------------- programs ----------------
#[derive(Clone, Debug)]
enum AOp {
    Ld,
    St(u64),
    Sw(u64),
    Cas(u64, u64),
    Add(u64),
    Sub(u64),
    And(u64),
    Nand(u64),
    Or(u64),
    Xor(u64),
    Max(u64),
    Min(u64),
}

#[derive(Clone, Debug)]
enum Op {
    Spawn(usize),
    Join(usize),
    Yield,
    Park,
    UnparkH(usize),
    UnparkT(usize),
    Rand,
    Atomic(usize, AOp),
    ResetSteps,
    Panic,
    SemAcq(usize, usize),
    SemTry(usize, usize),
    SemRel(usize, usize),
    SemClose(usize),
    SemAvail(usize),
    Lock(usize),
    TryLock(usize),
    Unlock(usize),
    RwLock(usize, bool),
    RwTry(usize, bool),
    RwUnlock(usize),
    CvWait(usize, usize),
    CvNotify(usize, bool),
    Send(usize, usize, u64, bool),
    Recv(usize, bool),
    DropTx(usize, usize),
    DropRx(usize),
    RecvAll(usize),
    Barrier(usize),
    CallOnce(usize, usize),
    IsCompleted(usize),
    ASpawn(usize),
    Await(usize),
    Abort(usize),
    Detach(usize),
    AYield,
    BlockOn(usize),
    IsFinished(usize),
    AcqNew(usize, usize, usize, usize),
    AcqPoll(usize, usize, usize),
    AcqDrop(usize, usize, usize),
    TlsWith(usize, u64),
    ThreadId,
    Scope(usize, usize),
    ScopeSpawn(usize, usize),
}

#[derive(Clone, Copy, PartialEq, Eq)]
enum Kind {
    Thread,
    Closure,
    Task,
    BlockOn,
    Dtor,
    Scope,
}

/// A thread-local value of the harness: a counter whose destructor logs its final value and runs the body the
/// key's object names.  Four static keys; the i-th `k` object of a program is static key i.
struct TlsVal {
    slot: usize,
    val: std::cell::Cell<u64>,
    /// the program and objects of the execution the value belongs to (its destructor runs a body of the program)
    ctx: Option<(Arc<Prog>, Arc<Vec<Obj>>)>,
}

thread_local! {
    /// the program and objects of the execution in progress (set by `start_exec`)
    static CUR: std::cell::RefCell<Option<(Arc<Prog>, std::sync::Weak<Vec<Obj>>)>> = const { std::cell::RefCell::new(None) };
    /// names given at spawn, by task id
    static NAMES: std::cell::RefCell<std::collections::HashMap<usize, Option<String>>> = std::cell::RefCell::new(Default::default());
    /// live `&Scope` of the scopes in progress, by (task id, scope object)
    static SCOPES: std::cell::RefCell<std::collections::HashMap<(usize, usize), usize>> = std::cell::RefCell::new(Default::default());
    /// set by the initialiser of a thread-local value
    static TLS_INIT: std::cell::Cell<bool> = const { std::cell::Cell::new(false) };
    /// thread-local values created and not yet dropped
    static TLS_LIVE: std::cell::Cell<i64> = const { std::cell::Cell::new(0) };
    /// stack / closure tokens created and not yet dropped
    static TOK_LIVE: std::cell::Cell<i64> = const { std::cell::Cell::new(0) };
}

/// A value that lives on a task's stack (for the whole body) or inside the closure of a spawned thread: counted, so that
/// values surviving the end of their execution can be seen (stacks of suspended tasks must be unwound, closures of tasks
/// that never started must be dropped).
struct LiveToken;
impl LiveToken {
    fn new() -> Self {
        TOK_LIVE.with(|f| f.set(f.get() + 1));
        LiveToken
    }
}
impl Drop for LiveToken {
    fn drop(&mut self) {
        TOK_LIVE.with(|f| f.set(f.get() - 1));
    }
}

#[derive(Clone, Debug, PartialEq)]
struct VLabel(u64);
#[derive(Debug)]
struct VTag(u64);
impl shuttle_engine::runtime::task::Taggable for VTag {}

impl TlsVal {
    fn new(slot: usize) -> Self {
        let ctx = CUR.with(|c| {
            let c = c.borrow();
            let (p, o) = c.as_ref().expect("vharness: no program");
            o.upgrade().map(|o| (p.clone(), o))
        });
        let init = ctx.as_ref().expect("vharness: no objects").0.key_init(slot);
        TLS_INIT.with(|f| f.set(true));
        TLS_LIVE.with(|f| f.set(f.get() + 1));
        TlsVal { slot, val: std::cell::Cell::new(init), ctx }
    }
}

impl Drop for TlsVal {
    fn drop(&mut self) {
        TLS_LIVE.with(|f| f.set(f.get() - 1));
        // values of tasks that never finished are dropped by the clean-up of the execution: nothing to log there
        let live = shuttle_engine::runtime::execution::ExecutionState::try_with(|s| !s.is_finished()).unwrap_or(false);
        if !live {
            return;
        }
        // (CUR only holds a weak reference to the objects, so that nothing of an execution outlives it)
        let Some((p, objs)) = self.ctx.take() else { return };
        let Some(&key) = p.key_objs.get(self.slot) else { return };
        log_op(39, &[key as u64, self.val.get()]);
        if let Some(d) = p.key_dtor(self.slot) {
            drive_ready(run_ops(p.clone(), objs.clone(), d, Kind::Dtor));
        }
    }
}

shuttle::thread_local! {
    static K0: TlsVal = TlsVal::new(0);
    static K1: TlsVal = TlsVal::new(1);
    static K2: TlsVal = TlsVal::new(2);
    static K3: TlsVal = TlsVal::new(3);
}

fn tls_key(slot: usize) -> &'static shuttle::thread::LocalKey<TlsVal> {
    match slot {
        0 => &K0,
        1 => &K1,
        2 => &K2,
        3 => &K3,
        _ => panic!("vharness: too many thread-local keys"),
    }
}

fn start_exec(p: &Arc<Prog>) -> Arc<Vec<Obj>> {
    let objs = Arc::new(make_objs(&p.obj_specs));
    CUR.with(|c| *c.borrow_mut() = Some((p.clone(), Arc::downgrade(&objs))));
    NAMES.with(|n| {
        let mut n = n.borrow_mut();
        n.clear();
        n.insert(0, Some("main-thread".to_string()));
    });
    SCOPES.with(|s| s.borrow_mut().clear());
    objs
}

enum AnyHandle {
    Plain(thread::JoinHandle<u64>),
    Scoped(thread::ScopedJoinHandle<'static, u64>),
}
impl AnyHandle {
    fn thread(&self) -> &thread::Thread {
        match self {
            AnyHandle::Plain(h) => h.thread(),
            AnyHandle::Scoped(h) => h.thread(),
        }
    }
    fn join(self) -> std::thread::Result<u64> {
        match self {
            AnyHandle::Plain(h) => h.join(),
            AnyHandle::Scoped(h) => h.join(),
        }
    }
}

/// Runs a future that is known never to be Pending (a thread body: its awaits are block_on calls).
fn drive_ready<F: std::future::Future>(f: F) -> F::Output {
    let mut f = Box::pin(f);
    let waker = std::task::Waker::noop();
    let mut cx = std::task::Context::from_waker(waker);
    match f.as_mut().poll(&mut cx) {
        std::task::Poll::Ready(v) => v,
        std::task::Poll::Pending => panic!("vharness: a thread body suspended"),
    }
}

enum Tx {
    U(shuttle::sync::mpsc::Sender<u64>),
    B(shuttle::sync::mpsc::SyncSender<u64>),
}

/// Endpoints of one channel.  The whole harness runs on one OS thread; endpoints are reached through an
/// UnsafeCell because several tasks may be blocked inside calls on the same endpoint.
struct ChanObj {
    txs: std::cell::UnsafeCell<Vec<Option<Tx>>>,
    rx: std::cell::UnsafeCell<Option<shuttle::sync::mpsc::Receiver<u64>>>,
}
unsafe impl Sync for ChanObj {}
unsafe impl Send for ChanObj {}

/// Acquire futures kept by hand (created, polled once at a time by whichever task, dropped).  Whatever is left when the
/// objects go away is leaked: dropping an Acquire calls into the semaphore, which may already be gone.
struct AcqSlots(std::cell::UnsafeCell<Vec<Option<std::pin::Pin<Box<shuttle_engine::future::batch_semaphore::Acquire<'static>>>>>>);
unsafe impl Sync for AcqSlots {}
unsafe impl Send for AcqSlots {}
impl Drop for AcqSlots {
    fn drop(&mut self) {
        for s in self.0.get_mut().drain(..) {
            std::mem::forget(s);
        }
    }
}

enum Obj {
    AcqSlots(AcqSlots),
    Atomic(AtomicU64),
    Sem(BatchSemaphore),
    Mutex(shuttle::sync::Mutex<()>),
    RwLock(shuttle::sync::RwLock<()>),
    Condvar(shuttle::sync::Condvar),
    Chan(ChanObj),
    Barrier(shuttle::sync::Barrier),
    Once(OnceRef),
    Placeholder,
}

/// A Once owned by the execution's objects, or one of the harness's `static` Onces (whose state must nevertheless be
/// per execution)
enum OnceRef {
    Own(shuttle::sync::Once),
    Static(&'static shuttle::sync::Once),
}
impl std::ops::Deref for OnceRef {
    type Target = shuttle::sync::Once;
    fn deref(&self) -> &shuttle::sync::Once {
        match self {
            OnceRef::Own(o) => o,
            OnceRef::Static(o) => o,
        }
    }
}
static SONCE0: shuttle::sync::Once = shuttle::sync::Once::new();
static SONCE1: shuttle::sync::Once = shuttle::sync::Once::new();

enum Guard<'a> {
    M(usize, shuttle::sync::MutexGuard<'a, ()>),
    R(usize, shuttle::sync::RwLockReadGuard<'a, ()>),
    W(usize, shuttle::sync::RwLockWriteGuard<'a, ()>),
}

impl Guard<'_> {
    fn obj(&self) -> usize {
        match self {
            Guard::M(o, _) | Guard::R(o, _) | Guard::W(o, _) => *o,
        }
    }
}

struct Prog {
    bodies: Vec<Vec<Op>>,
    obj_specs: Vec<String>,
    key_objs: Vec<usize>,
}

impl Prog {
    fn new(bodies: Vec<Vec<Op>>, obj_specs: Vec<String>) -> Prog {
        let key_objs = obj_specs.iter().enumerate().filter(|(_, w)| w.starts_with('k')).map(|(i, _)| i).collect();
        Prog { bodies, obj_specs, key_objs }
    }
    fn key_spec(&self, slot: usize) -> (u64, Option<usize>) {
        let w = &self.obj_specs[self.key_objs[slot]];
        let parts: Vec<&str> = w[1..].split(':').collect();
        (parts[0].parse().unwrap(), if parts[1] == "-" { None } else { Some(parts[1].parse().unwrap()) })
    }
    fn key_init(&self, slot: usize) -> u64 {
        self.key_spec(slot).0
    }
    fn key_dtor(&self, slot: usize) -> Option<usize> {
        self.key_spec(slot).1
    }
}

fn parse_op(w: &str) -> Op {
    let num = |k: usize| w[k..].parse::<usize>().unwrap();
    match &w[..2.min(w.len())] {
        "qn" | "qp" | "qd" => {
            let v: Vec<usize> = w[2..].split('.').map(|x| x.parse().unwrap()).collect();
            match &w[..2] {
                "qn" => Op::AcqNew(v[0], v[1], v[2], v[3]),
                "qp" => Op::AcqPoll(v[0], v[1], v[2]),
                _ => Op::AcqDrop(v[0], v[1], v[2]),
            }
        }
        "lw" => {
            let parts: Vec<&str> = w[2..].split('.').collect();
            Op::TlsWith(parts[0].parse().unwrap(), parts[1].parse().unwrap())
        }
        "id" => Op::ThreadId,
        "zc" | "zs" => {
            let parts: Vec<&str> = w[2..].split('.').collect();
            let (z, b) = (parts[0].parse().unwrap(), parts[1].parse().unwrap());
            if &w[..2] == "zc" { Op::Scope(z, b) } else { Op::ScopeSpawn(z, b) }
        }
        "sp" => Op::Spawn(num(2)),
        "jn" => Op::Join(num(2)),
        "yd" => Op::Yield,
        "pk" => Op::Park,
        "uh" => Op::UnparkH(num(2)),
        "ut" => Op::UnparkT(num(2)),
        "rn" => Op::Rand,
        "rs" => Op::ResetSteps,
        "pn" => Op::Panic,
        "sa" | "st" | "sr" => {
            let parts: Vec<&str> = w[2..].split('.').collect();
            let (o, n) = (parts[0].parse().unwrap(), parts[1].parse().unwrap());
            match &w[..2] {
                "sa" => Op::SemAcq(o, n),
                "st" => Op::SemTry(o, n),
                _ => Op::SemRel(o, n),
            }
        }
        "sc" => Op::SemClose(num(2)),
        "sv" => Op::SemAvail(num(2)),
        "lk" => Op::Lock(num(2)),
        "tl" => Op::TryLock(num(2)),
        "ul" => Op::Unlock(num(2)),
        "rd" => Op::RwLock(num(2), false),
        "wr" => Op::RwLock(num(2), true),
        "tr" => Op::RwTry(num(2), false),
        "tw" => Op::RwTry(num(2), true),
        "ru" => Op::RwUnlock(num(2)),
        "cw" => {
            let parts: Vec<&str> = w[2..].split('.').collect();
            Op::CvWait(parts[0].parse().unwrap(), parts[1].parse().unwrap())
        }
        "cn" => Op::CvNotify(num(2), false),
        "ca" => Op::CvNotify(num(2), true),
        "sd" | "ts" => {
            let parts: Vec<&str> = w[2..].split('.').collect();
            Op::Send(parts[0].parse().unwrap(), parts[1].parse().unwrap(), parts[2].parse().unwrap(), &w[..2] == "sd")
        }
        "rc" => Op::Recv(num(2), true),
        "tc" => Op::Recv(num(2), false),
        "dt" => {
            let parts: Vec<&str> = w[2..].split('.').collect();
            Op::DropTx(parts[0].parse().unwrap(), parts[1].parse().unwrap())
        }
        "dr" => Op::DropRx(num(2)),
        "ri" => Op::RecvAll(num(2)),
        "bw" => Op::Barrier(num(2)),
        "co" => {
            let parts: Vec<&str> = w[2..].split('.').collect();
            Op::CallOnce(parts[0].parse().unwrap(), parts[1].parse().unwrap())
        }
        "ic" => Op::IsCompleted(num(2)),
        "as" => Op::ASpawn(num(2)),
        "aw" => Op::Await(num(2)),
        "ab" => Op::Abort(num(2)),
        "dh" => Op::Detach(num(2)),
        "ay" => Op::AYield,
        "bo" => Op::BlockOn(num(2)),
        "if" => Op::IsFinished(num(2)),
        _ if w.starts_with('a') => {
            let parts: Vec<&str> = w.split('.').collect();
            let a = parts[0][1..].parse::<usize>().unwrap();
            let v = |i: usize| parts[i].parse::<u64>().unwrap();
            let op = match parts[1] {
                "ld" => AOp::Ld,
                "st" => AOp::St(v(2)),
                "sw" => AOp::Sw(v(2)),
                "cas" => AOp::Cas(v(2), v(3)),
                "add" => AOp::Add(v(2)),
                "sub" => AOp::Sub(v(2)),
                "and" => AOp::And(v(2)),
                "nand" => AOp::Nand(v(2)),
                "or" => AOp::Or(v(2)),
                "xor" => AOp::Xor(v(2)),
                "max" => AOp::Max(v(2)),
                "min" => AOp::Min(v(2)),
                x => panic!("bad atomic op {x}"),
            };
            Op::Atomic(a, op)
        }
        _ => panic!("bad op {w}"),
    }
}

fn make_objs(specs: &[String]) -> Vec<Obj> {
    let mut nstatic = 0usize;
    specs
        .iter()
        .map(|w| match w.as_bytes()[0] {
            b'O' => {
                nstatic += 1;
                Obj::Once(OnceRef::Static(if nstatic == 1 { &SONCE0 } else { &SONCE1 }))
            }
            b'a' => Obj::Atomic(AtomicU64::new(w[1..].parse::<u64>().unwrap())),
            b'm' => Obj::Mutex(shuttle::sync::Mutex::new(())),
            b'w' => Obj::RwLock(shuttle::sync::RwLock::new(())),
            b'v' => Obj::Condvar(shuttle::sync::Condvar::new()),
            b'c' => {
                let (txs, rx) = if &w[1..] == "u" {
                    let (tx, rx) = shuttle::sync::mpsc::channel::<u64>();
                    (vec![Some(Tx::U(tx.clone())), Some(Tx::U(tx.clone())), Some(Tx::U(tx))], rx)
                } else {
                    let (tx, rx) = shuttle::sync::mpsc::sync_channel::<u64>(w[1..].parse().unwrap());
                    (vec![Some(Tx::B(tx.clone())), Some(Tx::B(tx.clone())), Some(Tx::B(tx))], rx)
                };
                Obj::Chan(ChanObj {
                    txs: std::cell::UnsafeCell::new(txs),
                    rx: std::cell::UnsafeCell::new(Some(rx)),
                })
            }
            b'e' | b'k' | b'z' => Obj::Placeholder,
            b'q' => Obj::AcqSlots(AcqSlots(std::cell::UnsafeCell::new((0..4).map(|_| None).collect()))),
            b'b' => Obj::Barrier(shuttle::sync::Barrier::new(w[1..].parse().unwrap())),
            b'o' => Obj::Once(OnceRef::Own(shuttle::sync::Once::new())),
            b's' => {
                let parts: Vec<&str> = w[1..].split(':').collect();
                let fair = if parts[1] == "f" { Fairness::StrictlyFair } else { Fairness::Unfair };
                Obj::Sem(BatchSemaphore::new(parts[0].parse().unwrap(), fair))
            }
            _ => panic!("bad object {w}"),
        })
        .collect()
}

fn me() -> usize {
    usize::from(shuttle::current::me())
}

fn log_op(tag: u32, vals: &[u64]) {
    let clk = shuttle::current::clock();
    let clk: Vec<String> = clk.iter().map(|x| x.to_string()).collect();
    log(format!(
        "O{}:{}:{}@{}",
        me(),
        tag,
        vals.iter().map(|v| v.to_string()).collect::<Vec<_>>().join(","),
        clk.join(".")
    ));
}

fn lock_code<G, P>(r: Result<G, std::sync::PoisonError<P>>, unwrap: impl FnOnce(P) -> G) -> (u64, G) {
    match r {
        Ok(g) => (0, g),
        Err(p) => (1, unwrap(p.into_inner())),
    }
}

fn run_body(p: Arc<Prog>, objs: Arc<Vec<Obj>>, b: usize) -> u64 {
    let _on_stack = LiveToken::new();
    drive_ready(run_ops(p, objs, b, Kind::Thread));
    // the value handed to the joiner: a function of the thread's own id
    1000 + me() as u64
}

fn run_ops(p: Arc<Prog>, objs: Arc<Vec<Obj>>, b: usize, kind: Kind) -> std::pin::Pin<Box<dyn std::future::Future<Output = u64>>> {
    Box::pin(run_ops_inner(p, objs, b, kind))
}

async fn run_ops_inner(p: Arc<Prog>, objs: Arc<Vec<Obj>>, b: usize, kind: Kind) -> u64 {
    let objs_ref: &Vec<Obj> = &objs;
    let real_await = kind == Kind::Task || kind == Kind::BlockOn;
    let mut ahandles: Vec<Option<shuttle::future::JoinHandle<u64>>> = Vec::new();
    let mut atids: Vec<usize> = Vec::new();
    if kind == Kind::Closure {
        log_op(30, &[]);
    }
    // guards are always released newest first, also when the body unwinds
    struct Guards<'a>(Vec<Guard<'a>>);
    impl Drop for Guards<'_> {
        fn drop(&mut self) {
            while let Some(g) = self.0.pop() {
                drop(g);
            }
        }
    }
    let mut guards_holder = Guards(Vec::new());
    let guards = &mut guards_holder.0;
    let mut handles: Vec<Option<AnyHandle>> = Vec::new();
    let mut threads: Vec<thread::Thread> = Vec::new();
    let ops = p.bodies.get(b).cloned().unwrap_or_default();
    for op in ops {
        LAST_TASK.with(|c| c.set(me()));
        match op.clone() {
            Op::Spawn(j) => {
                let (p2, o2) = (p.clone(), objs.clone());
                // odd bodies are spawned through a Builder with a name
                let name = if j % 2 == 1 { Some(format!("b{j}")) } else { None };
                let tok = LiveToken::new();      // owned by the closure: dropped when it ends, or with it if it never starts
                let f = move || {
                    let _in_closure = tok;
                    run_body(p2, o2, j)
                };
                let h = match &name {
                    Some(n) => thread::Builder::new().name(n.clone()).spawn(f).unwrap(),
                    None => thread::spawn(f),
                };
                let tid: usize = h.thread().id().into();
                assert_eq!(h.thread().name().map(|s| s.to_string()), name, "vharness: JoinHandle::thread().name()");
                NAMES.with(|n| n.borrow_mut().insert(tid, name));
                threads.push(h.thread().clone());
                handles.push(Some(AnyHandle::Plain(h)));
                log_op(1, &[tid as u64]);
            }
            Op::Join(h) => {
                let jh = handles.get_mut(h).and_then(|x| x.take()).expect("vharness: bad handle");
                let tid: usize = jh.thread().id().into();
                let v = jh.join().unwrap();
                log_op(2, &[tid as u64, v]);
            }
            Op::AcqNew(q, slot, o, n) => {
                let Obj::AcqSlots(sl) = &objs_ref[q] else { panic!("vharness: not a slot table") };
                let Obj::Sem(sm) = &objs_ref[o] else { panic!("vharness: not a semaphore") };
                // SAFETY: single OS thread; the semaphore lives in the same object vector, which outlives the slot's use
                let sm: &'static BatchSemaphore = unsafe { &*(sm as *const BatchSemaphore) };
                let slots = unsafe { &mut *sl.0.get() };
                assert!(slots[slot].is_none(), "vharness: slot in use");
                slots[slot] = Some(Box::pin(sm.acquire(n)));
                log_op(42, &[slot as u64]);
            }
            Op::AcqPoll(q, slot, _o) => {
                let Obj::AcqSlots(sl) = &objs_ref[q] else { panic!("vharness: not a slot table") };
                let mut fut = (unsafe { &mut *sl.0.get() })[slot].take().expect("vharness: empty slot");
                let waker = shuttle_engine::runtime::execution::ExecutionState::with(|s| s.current().waker());
                let mut cx = std::task::Context::from_waker(&waker);
                let r = match std::future::Future::poll(fut.as_mut(), &mut cx) {
                    std::task::Poll::Ready(Ok(())) => 0,
                    std::task::Poll::Ready(Err(_)) => 1,
                    std::task::Poll::Pending => 2,
                };
                (unsafe { &mut *sl.0.get() })[slot] = Some(fut);
                log_op(43, &[slot as u64, r]);
            }
            Op::AcqDrop(q, slot, _o) => {
                let Obj::AcqSlots(sl) = &objs_ref[q] else { panic!("vharness: not a slot table") };
                let fut = (unsafe { &mut *sl.0.get() })[slot].take().expect("vharness: empty slot");
                drop(fut);
                log_op(44, &[slot as u64]);
            }
            Op::TlsWith(key, add) => {
                let slot = p.key_objs.iter().position(|&k| k == key).expect("vharness: not a key");
                TLS_INIT.with(|f| f.set(false));
                let r = tls_key(slot).try_with(|c| {
                    let old = c.val.get();
                    c.val.set(old.wrapping_add(add));
                    old
                });
                match r {
                    Ok(old) => {
                        // status 1 = the initialiser ran during this access
                        let first = TLS_INIT.with(|f| f.get());
                        log_op(38, &[key as u64, first as u64, old]);
                    }
                    Err(_) => log_op(38, &[key as u64, 2, 0]),
                }
            }
            Op::ThreadId => {
                let c = thread::current();
                let id: usize = c.id().into();
                let expected = NAMES.with(|n| n.borrow().get(&me()).cloned()).unwrap_or(None);
                let ok = c.name().map(|s| s.to_string()) == expected;
                log_op(40, &[id as u64, ok as u64]);
            }
            Op::Scope(z, j) => {
                let (p2, o2) = (p.clone(), objs.clone());
                let owner = me();
                thread::scope(|s| {
                    // SAFETY: the pointer is used only by ScopeSpawn operations of the body run inside this closure
                    let addr = s as *const thread::Scope<'_, '_> as usize;
                    SCOPES.with(|m| m.borrow_mut().insert((owner, z), addr));
                    log_op(41, &[z as u64]);
                    drive_ready(run_ops(p2, o2, j, Kind::Scope));
                    SCOPES.with(|m| m.borrow_mut().remove(&(owner, z)));
                });
                log_op(41, &[]);
            }
            Op::ScopeSpawn(z, j) => {
                let addr = SCOPES.with(|m| m.borrow().get(&(me(), z)).copied()).expect("vharness: no scope");
                // SAFETY: see Op::Scope; the closure only captures Arcs
                let s: &'static thread::Scope<'static, 'static> = unsafe { &*(addr as *const thread::Scope<'static, 'static>) };
                let (p2, o2) = (p.clone(), objs.clone());
                let h = s.spawn(move || run_body(p2, o2, j));
                let tid: usize = h.thread().id().into();
                NAMES.with(|n| n.borrow_mut().insert(tid, None));
                threads.push(h.thread().clone());
                handles.push(Some(AnyHandle::Scoped(h)));
                log_op(1, &[tid as u64]);
            }
            Op::Yield => {
                thread::yield_now();
                log_op(3, &[]);
            }
            Op::Park => {
                if me() % 2 == 1 {
                    thread::park_timeout(std::time::Duration::from_millis(1));
                } else {
                    thread::park();
                }
                log_op(4, &[]);
            }
            Op::UnparkH(h) => {
                let th = threads.get(h).expect("vharness: bad handle");
                let tid: usize = th.id().into();
                th.unpark();
                log_op(5, &[tid as u64]);
            }
            Op::UnparkT(t) => {
                // Thread values for arbitrary ids are not constructible through std's API; go through the engine
                shuttle_engine::runtime::thread::switch();
                shuttle_engine::runtime::execution::ExecutionState::with(|s| s.get_mut(TaskId::from(t)).unpark());
                log_op(5, &[t as u64]);
            }
            Op::Rand => {
                use shuttle::rand::RngCore;
                let v = shuttle::rand::thread_rng().next_u64();
                log_op(6, &[v]);
            }
            Op::Atomic(a, aop) => {
                let Obj::Atomic(at) = &objs[a] else { panic!("vharness: not an atomic") };
                // Shuttle gives every ordering the sequentially consistent behaviour; the orderings used vary with the
                // object so that no ordering gets a treatment of its own unnoticed
                let (o, lo, so) = match a % 3 {
                    0 => (Ordering::SeqCst, Ordering::SeqCst, Ordering::SeqCst),
                    1 => (Ordering::Relaxed, Ordering::Relaxed, Ordering::Relaxed),
                    _ => (Ordering::AcqRel, Ordering::Acquire, Ordering::Release),
                };
                let (ok, ret) = match aop {
                    AOp::Ld => (true, at.load(lo)),
                    AOp::St(v) => {
                        at.store(v, so);
                        (true, 0)
                    }
                    AOp::Sw(v) => (true, at.swap(v, o)),
                    // the deprecated compare_and_swap is the same operation with another result type
                    #[allow(deprecated)]
                    AOp::Cas(c, n) if a % 3 == 2 => {
                        let v = at.compare_and_swap(c, n, o);
                        (v == c, v)
                    }
                    // (no spurious failures are produced: the weak form is the strong one)
                    AOp::Cas(c, n) if a % 3 == 1 => match at.compare_exchange_weak(c, n, o, lo) {
                        Ok(v) => (true, v),
                        Err(v) => (false, v),
                    },
                    AOp::Cas(c, n) => match at.compare_exchange(c, n, o, lo) {
                        Ok(v) => (true, v),
                        Err(v) => (false, v),
                    },
                    AOp::Add(v) => (true, at.fetch_add(v, o)),
                    AOp::Sub(v) => (true, at.fetch_sub(v, o)),
                    AOp::And(v) => (true, at.fetch_and(v, o)),
                    AOp::Nand(v) => (true, at.fetch_nand(v, o)),
                    AOp::Or(v) => (true, at.fetch_or(v, o)),
                    AOp::Xor(v) => (true, at.fetch_xor(v, o)),
                    AOp::Max(v) => (true, at.fetch_max(v, o)),
                    AOp::Min(v) => (true, at.fetch_min(v, o)),
                };
                log_op(7, &[ok as u64, ret]);
            }
            Op::ResetSteps => {
                shuttle::current::reset_step_count();
                log_op(8, &[]);
            }
            Op::Panic => {
                panic!("vpanic");
            }
            Op::CvWait(cv, m) => {
                let Obj::Condvar(c) = &objs_ref[cv] else { panic!("vharness: not a condvar") };
                let idx = guards
                    .iter()
                    .rposition(|g| g.obj() == m && matches!(g, Guard::M(..)))
                    .expect("vharness: no guard");
                let Guard::M(_, g) = guards.remove(idx) else { unreachable!() };
                // Shuttle does not model time: the timed variants are the untimed ones (odd task ids go through them)
                // task ids 2 and 3 mod 4 use the predicate forms with a condition that holds exactly once (one wait)
                let (code, g) = if me() % 4 == 1 {
                    let (code, (g, t)) = lock_code(c.wait_timeout(g, std::time::Duration::from_millis(1)), |x| x);
                    assert!(!t.timed_out(), "vharness: wait_timeout reported a timeout");
                    (code, g)
                } else if me() % 4 == 2 {
                    let mut first = true;
                    lock_code(c.wait_while(g, |_| std::mem::replace(&mut first, false)), |g| g)
                } else if me() % 4 == 3 {
                    let mut first = true;
                    let (code, (g, t)) =
                        lock_code(c.wait_timeout_while(g, std::time::Duration::from_millis(1), |_| std::mem::replace(&mut first, false)), |x| x);
                    assert!(!t.timed_out(), "vharness: wait_timeout_while reported a timeout");
                    (code, g)
                } else {
                    lock_code(c.wait(g), |g| g)
                };
                guards.push(Guard::M(m, g));
                log_op(21, &[code]);
            }
            Op::CvNotify(cv, all) => {
                let Obj::Condvar(c) = &objs_ref[cv] else { panic!("vharness: not a condvar") };
                if all {
                    c.notify_all();
                } else {
                    c.notify_one();
                }
                log_op(22, &[all as u64]);
            }
            Op::Send(ch, slot, v, blocking) => {
                let Obj::Chan(c) = &objs_ref[ch] else { panic!("vharness: not a channel") };
                // SAFETY: single OS thread; the generator never drops an endpoint another task is blocked on
                let txs = unsafe { &*c.txs.get() };
                let tx = txs.get(slot).and_then(|t| t.as_ref()).expect("vharness: endpoint dropped");
                let code = match tx {
                    Tx::U(t) => match t.send(v) {
                        Ok(()) => 0,
                        Err(_) => 2,
                    },
                    Tx::B(t) => {
                        if blocking {
                            match t.send(v) {
                                Ok(()) => 0,
                                Err(_) => 2,
                            }
                        } else {
                            match t.try_send(v) {
                                Ok(()) => 0,
                                Err(shuttle::sync::mpsc::TrySendError::Full(_)) => 1,
                                Err(shuttle::sync::mpsc::TrySendError::Disconnected(_)) => 2,
                            }
                        }
                    }
                };
                log_op(23, &[code]);
            }
            Op::Recv(ch, blocking) => {
                let Obj::Chan(c) = &objs_ref[ch] else { panic!("vharness: not a channel") };
                let rx = unsafe { &*c.rx.get() }.as_ref().expect("vharness: endpoint dropped");
                if blocking && me() % 2 == 1 {
                    match rx.recv_timeout(std::time::Duration::from_millis(1)) {
                        Ok(v) => log_op(24, &[0, v]),
                        Err(shuttle::sync::mpsc::RecvTimeoutError::Disconnected) => log_op(24, &[2]),
                        Err(shuttle::sync::mpsc::RecvTimeoutError::Timeout) => log_op(24, &[3]),
                    }
                } else if blocking {
                    match rx.recv() {
                        Ok(v) => log_op(24, &[0, v]),
                        Err(_) => log_op(24, &[2]),
                    }
                } else {
                    match rx.try_recv() {
                        Ok(v) => log_op(24, &[0, v]),
                        Err(shuttle::sync::mpsc::TryRecvError::Empty) => log_op(24, &[1]),
                        Err(shuttle::sync::mpsc::TryRecvError::Disconnected) => log_op(24, &[2]),
                    }
                }
            }
            Op::DropTx(ch, slot) => {
                let Obj::Chan(c) = &objs_ref[ch] else { panic!("vharness: not a channel") };
                let txs = unsafe { &mut *c.txs.get() };
                let tx = txs.get_mut(slot).and_then(|t| t.take()).expect("vharness: endpoint dropped");
                drop(tx);
                log_op(25, &[]);
            }
            Op::RecvAll(ch) => {
                // `for v in rx`: the owning iterator, which takes the Receiver with it
                let Obj::Chan(c) = &objs_ref[ch] else { panic!("vharness: not a channel") };
                let rx = unsafe { &mut *c.rx.get() }.take().expect("vharness: endpoint dropped");
                let mut it = rx.into_iter();
                while let Some(v) = it.next() {
                    log_op(24, &[0, v]);
                }
                log_op(24, &[2]);
                drop(it);
                log_op(26, &[]);
            }
            Op::DropRx(ch) => {
                let Obj::Chan(c) = &objs_ref[ch] else { panic!("vharness: not a channel") };
                let rx = unsafe { &mut *c.rx.get() }.take().expect("vharness: endpoint dropped");
                drop(rx);
                log_op(26, &[]);
            }
            Op::Barrier(b) => {
                let Obj::Barrier(bar) = &objs_ref[b] else { panic!("vharness: not a barrier") };
                let r = bar.wait();
                log_op(27, &[r.is_leader() as u64]);
            }
            Op::CallOnce(o, j) => {
                let Obj::Once(once) = &objs_ref[o] else { panic!("vharness: not a once") };
                let (p2, o2) = (p.clone(), objs.clone());
                once.call_once(move || {
                    drive_ready(run_ops(p2, o2, j, Kind::Closure));
                });
                log_op(28, &[]);
            }
            Op::ASpawn(j) => {
                let (p2, o2) = (p.clone(), objs.clone());
                let h = shuttle::future::spawn_local(async move { run_ops(p2, o2, j, Kind::Task).await });
                // the task id of the new task is the number of tasks created so far; read it back from the handle's debug output is not possible,
                // so take it from the engine: the most recently created task
                let tid = shuttle_engine::runtime::execution::ExecutionState::with(|s| {
                    let mut n = 0usize;
                    while s.try_get(TaskId::from(n)).is_some() {
                        n += 1;
                    }
                    n - 1
                });
                ahandles.push(Some(h));
                atids.push(tid);
                log_op(31, &[tid as u64]);
            }
            Op::Await(h) => {
                let jh = ahandles.get_mut(h).and_then(|x| x.take()).expect("vharness: bad async handle");
                let r = if real_await { jh.await } else { shuttle::future::block_on(jh) };
                match r {
                    Ok(v) => log_op(32, &[0, v]),
                    Err(_) => log_op(32, &[1]),
                }
            }
            Op::Abort(h) => {
                let jh = ahandles.get(h).and_then(|x| x.as_ref()).expect("vharness: bad async handle");
                // both ways of aborting are the same operation: odd task ids go through an AbortHandle
                if atids[h] % 2 == 1 {
                    jh.abort_handle().abort();
                } else {
                    jh.abort();
                }
                log_op(33, &[atids[h] as u64]);
            }
            Op::Detach(h) => {
                let jh = ahandles.get_mut(h).and_then(|x| x.take()).expect("vharness: bad async handle");
                drop(jh);
                log_op(34, &[atids[h] as u64]);
            }
            Op::AYield => {
                if real_await {
                    shuttle::future::yield_now().await;
                } else {
                    shuttle::future::block_on(shuttle::future::yield_now());
                }
                log_op(35, &[]);
            }
            Op::BlockOn(j) => {
                log_op(36, &[j as u64]);
                let (p2, o2) = (p.clone(), objs.clone());
                shuttle::future::block_on(run_ops(p2, o2, j, Kind::BlockOn));
                log_op(36, &[]);
            }
            Op::IsFinished(h) => {
                let jh = ahandles.get(h).and_then(|x| x.as_ref()).expect("vharness: bad async handle");
                log_op(37, &[jh.is_finished() as u64]);
            }
            Op::IsCompleted(o) => {
                let Obj::Once(once) = &objs_ref[o] else { panic!("vharness: not a once") };
                let r = once.is_completed();
                log_op(29, &[r as u64]);
            }
            Op::SemAcq(o, n) => {
                let Obj::Sem(sm) = &objs_ref[o] else { panic!("vharness: not a semaphore") };
                let r = sm.acquire_blocking(n);
                log_op(10, &[r.is_ok() as u64]);
            }
            Op::SemTry(o, n) => {
                let Obj::Sem(sm) = &objs_ref[o] else { panic!("vharness: not a semaphore") };
                let r = match sm.try_acquire(n) {
                    Ok(()) => 0,
                    Err(TryAcquireError::NoPermits) => 1,
                    Err(TryAcquireError::Closed) => 2,
                };
                log_op(11, &[r]);
            }
            Op::SemRel(o, n) => {
                let Obj::Sem(sm) = &objs_ref[o] else { panic!("vharness: not a semaphore") };
                sm.release(n);
                log_op(12, &[]);
            }
            Op::SemClose(o) => {
                let Obj::Sem(sm) = &objs_ref[o] else { panic!("vharness: not a semaphore") };
                sm.close();
                log_op(13, &[]);
            }
            Op::SemAvail(o) => {
                let sm = match &objs_ref[o] {
                    Obj::Sem(sm) => sm,
                    _ => panic!("vharness: not a semaphore"),
                };
                log_op(14, &[sm.available_permits() as u64, sm.is_closed() as u64]);
            }
            Op::Lock(o) => {
                let Obj::Mutex(m) = &objs_ref[o] else { panic!("vharness: not a mutex") };
                let (code, g) = lock_code(m.lock(), |g| g);
                guards.push(Guard::M(o, g));
                log_op(15, &[code]);
            }
            Op::TryLock(o) => {
                let Obj::Mutex(m) = &objs_ref[o] else { panic!("vharness: not a mutex") };
                let code = match m.try_lock() {
                    Ok(g) => {
                        guards.push(Guard::M(o, g));
                        0
                    }
                    Err(std::sync::TryLockError::Poisoned(p)) => {
                        guards.push(Guard::M(o, p.into_inner()));
                        1
                    }
                    Err(std::sync::TryLockError::WouldBlock) => 2,
                };
                log_op(16, &[code]);
            }
            Op::Unlock(o) | Op::RwUnlock(o) => {
                let is_rw = matches!(op, Op::RwUnlock(_));
                let idx = guards.iter().rposition(|g| g.obj() == o).expect("vharness: no guard");
                let g = guards.remove(idx);
                let w = matches!(g, Guard::W(..)) as u64;
                drop(g);
                if is_rw {
                    log_op(20, &[w, o as u64]);
                } else {
                    log_op(17, &[o as u64]);
                }
            }
            Op::RwLock(o, write) => {
                let Obj::RwLock(l) = &objs_ref[o] else { panic!("vharness: not a rwlock") };
                let code = if write {
                    let (c, g) = lock_code(l.write(), |g| g);
                    guards.push(Guard::W(o, g));
                    c
                } else {
                    let (c, g) = lock_code(l.read(), |g| g);
                    guards.push(Guard::R(o, g));
                    c
                };
                log_op(18, &[write as u64, code]);
            }
            Op::RwTry(o, write) => {
                let Obj::RwLock(l) = &objs_ref[o] else { panic!("vharness: not a rwlock") };
                let code = if write {
                    match l.try_write() {
                        Ok(g) => {
                            guards.push(Guard::W(o, g));
                            0
                        }
                        Err(std::sync::TryLockError::Poisoned(p)) => {
                            guards.push(Guard::W(o, p.into_inner()));
                            1
                        }
                        Err(std::sync::TryLockError::WouldBlock) => 2,
                    }
                } else {
                    match l.try_read() {
                        Ok(g) => {
                            guards.push(Guard::R(o, g));
                            0
                        }
                        Err(std::sync::TryLockError::Poisoned(p)) => {
                            guards.push(Guard::R(o, p.into_inner()));
                            1
                        }
                        Err(std::sync::TryLockError::WouldBlock) => 2,
                    }
                };
                log_op(19, &[write as u64, code]);
            }
        }
    }
    if kind == Kind::Thread || kind == Kind::Task {
        log_op(9, &[]);
    }
    // guards still held are dropped newest first, before the thread's epilogue
    while let Some(g) = guards.pop() {
        match g {
            Guard::M(o, _) => {
                drop(g);
                log_op(17, &[o as u64]);
            }
            Guard::R(o, _) => {
                drop(g);
                log_op(20, &[0, o as u64]);
            }
            Guard::W(o, _) => {
                drop(g);
                log_op(20, &[1, o as u64]);
            }
        }
    }
    // JoinHandles of spawned futures still owned are dropped (detached) after the guards
    for h in ahandles.iter_mut() {
        drop(h.take());
    }
    b as u64
}

fn classify(payload: Box<dyn std::any::Any + Send>) -> String {
    let msg = if let Some(s) = payload.downcast_ref::<String>() {
        s.clone()
    } else if let Some(s) = payload.downcast_ref::<&str>() {
        s.to_string()
    } else {
        "<non-string payload>".to_string()
    };
    if msg.starts_with("deadlock! blocked tasks:") {
        let mut ids = Vec::new();
        let mut rest = msg.as_str();
        while let Some(i) = rest.find("(task ") {
            rest = &rest[i + 6..];
            // `TaskId(3)` or `"name"(3)`
            let open = rest.find('(').unwrap_or(0);
            rest = &rest[open + 1..];
            let end = rest.find(|c: char| !c.is_ascii_digit()).unwrap_or(rest.len());
            ids.push(rest[..end].to_string());
        }
        format!("deadlock:[{}]", ids.join(","))
    } else if msg.starts_with("exceeded max_steps bound") {
        "stepbound".to_string()
    } else if msg.starts_with("no task was scheduled") {
        "schedbug".to_string()
    } else if msg.starts_with("scheduled task is not runnable, expected to run ") {
        // ReplayScheduler's assertion; the id is the number in the first pair of parentheses
        let rest = &msg["scheduled task is not runnable, expected to run ".len()..];
        let id: String = rest.chars().skip_while(|c| *c != '(').skip(1).take_while(|c| c.is_ascii_digit()).collect();
        format!("replay-not-runnable:{}", id)
    } else if msg.starts_with("schedule ended early") {
        "replay-ended".to_string()
    } else if msg.starts_with("expected context switch but next schedule step is random choice")
        || msg.starts_with("expected random choice but next schedule step is context switch")
    {
        "replay-mismatch".to_string()
    } else {
        // the panicking task is the one chosen at the last decision
        let last = LOG.with(|l| {
            l.borrow()
                .iter()
                .rev()
                .find(|e| e.starts_with('D'))
                .and_then(|e| e.rsplit('>').next().map(|x| x.to_string()))
        });
        format!("panic:{}", last.unwrap_or_else(|| LAST_TASK.with(|c| c.get()).to_string()))
    }
}

/// A transparent wrapper that snapshots the recorded schedule of each finished execution.
struct IterRecorder<S: Scheduler> {
    inner: S,
    started: bool,
}

thread_local! {
    static ITERS: RefCell<Vec<String>> = const { RefCell::new(Vec::new()) };
}

fn show_schedule(recorded: &Schedule) -> String {
    recorded
        .steps
        .iter()
        .map(|s| match s {
            ScheduleStep::Task(t) => format!("t{}", usize::from(*t)),
            ScheduleStep::Random => "r".to_string(),
        })
        .collect::<Vec<_>>()
        .join(",")
}

impl<S: Scheduler> Scheduler for IterRecorder<S> {
    fn new_execution(&mut self) -> Option<Schedule> {
        if self.started {
            let sch = CurrentSchedule::get_schedule();
            ITERS.with(|l| l.borrow_mut().push(format!("S={}:R={}:T=ok", show_schedule(&sch), take_draws())));
        }
        self.started = true;
        self.inner.new_execution()
    }
    fn next_task(&mut self, runnable: &[&Task], current: Option<TaskId>, is_yielding: bool) -> Option<TaskId> {
        let c = self.inner.next_task(runnable, current, is_yielding);
        log(format!("D>{}", c.map(|c| usize::from(c).to_string()).unwrap_or("x".into())));
        c
    }
    fn next_u64(&mut self) -> u64 {
        let v = self.inner.next_u64();
        DRAWS.with(|d| d.borrow_mut().push(v.to_string()));
        v
    }
}

thread_local! {
    static DRAWS: RefCell<Vec<String>> = const { RefCell::new(Vec::new()) };
}

fn take_draws() -> String {
    DRAWS.with(|d| {
        let s = d.borrow().join(".");
        d.borrow_mut().clear();
        s
    })
}

fn parse_config(ms: &str) -> Option<Config> {
    let mut config = Config::new();
    config.failure_persistence = FailurePersistence::None;
    config.max_steps = match ms.split(':').collect::<Vec<_>>()[..] {
        ["none"] => MaxSteps::None,
        ["fail", n] => MaxSteps::FailAfter(n.parse().unwrap()),
        ["cont", n] => MaxSteps::ContinueAfter(n.parse().unwrap()),
        _ => return None,
    };
    Some(config)
}

fn parse_prog(objs: &str, bodies: &str) -> Arc<Prog> {
    Arc::new(Prog::new(
        bodies
            .split('|')
            .map(|b| crate::split_list(b, ';').iter().map(|w| parse_op(w)).collect())
            .collect(),
        crate::split_list(objs, ',').iter().map(|s| s.to_string()).collect(),
    ))
}

/// progdfs <ms> <maxiter|-> <objs> <bodies>: the real DfsScheduler under the real Runner
pub fn run_dfs(words: &[&str]) -> String {
    let [_, ms, mi, allow, objs, bodies] = words else {
        return "ERR bad case".to_string();
    };
    let Some(config) = parse_config(ms) else { return "ERR bad max_steps".to_string() };
    let cap = 3000usize;
    DRAWS.with(|d| d.borrow_mut().clear());
    let mi: usize = if *mi == "-" { cap } else { mi.parse::<usize>().unwrap().min(cap) };
    let prog = parse_prog(objs, bodies);
    let sched = IterRecorder {
        inner: shuttle_schedulers::DfsScheduler::new(Some(mi), *allow == "1"),
        started: false,
    };
    LOG.with(|l| l.borrow_mut().clear());
    ITERS.with(|l| l.borrow_mut().clear());
    let p2 = prog.clone();
    let res = catch_unwind(AssertUnwindSafe(|| {
        Runner::new(sched, config).run(move || {
            let objs = start_exec(&p2);
            run_body(p2.clone(), objs, 0);
        })
    }));
    let last = CurrentSchedule::get_schedule();
    let n = match res {
        // the final new_execution call (which answered None) already recorded the last execution
        Ok(n) => n,
        Err(p) => {
            ITERS.with(|l| l.borrow_mut().push(format!("S={}:R={}:T={}", show_schedule(&last), take_draws(), classify(p))));
            usize::MAX
        }
    };
    let iters = ITERS.with(|l| l.borrow().join(" | "));
    format!("N={} {}", if n == usize::MAX { "fail".to_string() } else { n.to_string() }, iters)
}

/// A transparent wrapper that logs every decision and draw and snapshots each finished execution.
struct Rec<S: Scheduler> {
    inner: S,
    started: bool,
}

thread_local! {
    static ITER_DATA: RefCell<Vec<(String, Schedule)>> = const { RefCell::new(Vec::new()) };
}

fn snapshot_iteration() {
    let sch = CurrentSchedule::get_schedule();
    // values of the finished execution that are still alive when the next one is about to start
    log(format!("LIVE={}.{}", TLS_LIVE.with(|f| f.get()), TOK_LIVE.with(|f| f.get())));
    let log = LOG.with(|l| {
        let s = l.borrow().join(" ");
        l.borrow_mut().clear();
        s
    });
    ITER_DATA.with(|d| d.borrow_mut().push((log, sch)));
}

impl<S: Scheduler> Scheduler for Rec<S> {
    fn new_execution(&mut self) -> Option<Schedule> {
        if self.started {
            snapshot_iteration();
        }
        self.started = true;
        self.inner.new_execution()
    }
    fn next_task(&mut self, runnable: &[&Task], current: Option<TaskId>, is_yielding: bool) -> Option<TaskId> {
        let c = self.inner.next_task(runnable, current, is_yielding);
        log(format!(
            "D[{}]c{}y{}>{}",
            runnable.iter().map(|t| usize::from(t.id()).to_string()).collect::<Vec<_>>().join(","),
            current.map(|c| usize::from(c).to_string()).unwrap_or("-".into()),
            is_yielding as u8,
            c.map(|c| usize::from(c).to_string()).unwrap_or("x".into())
        ));
        c
    }
    fn next_u64(&mut self) -> u64 {
        let v = self.inner.next_u64();
        log(format!("R{}", v));
        v
    }
}

fn run_recorded<S: Scheduler + 'static>(sched: S, config: Config, prog: Arc<Prog>) -> (Vec<(String, Schedule)>, Option<String>) {
    LOG.with(|l| l.borrow_mut().clear());
    ITER_DATA.with(|d| d.borrow_mut().clear());
    // a failing run leaks what its tasks held (the process of a failing test is about to end): count from zero per run
    TLS_LIVE.with(|f| f.set(0));
    TOK_LIVE.with(|f| f.set(0));
    let rec = Rec { inner: sched, started: false };
    let p2 = prog.clone();
    let res = catch_unwind(AssertUnwindSafe(|| {
        Runner::new(rec, config).run(move || {
            // per-execution bookkeeping of the runtime must start empty: the main task's label and tag are read before
            // they are set, and set before the body runs
            let me_ = shuttle::current::me();
            let lbl = shuttle::current::get_label_for_task::<VLabel>(me_).map(|l| l.0 as i64).unwrap_or(-1);
            let tag = shuttle::current::get_tag_for_current_task().map(|_| 1).unwrap_or(0);
            log(format!("META={}.{}", lbl, tag));
            shuttle::current::set_label_for_task(me_, VLabel(7));
            shuttle::current::set_tag_for_current_task(Arc::new(VTag(9)));
            let objs = start_exec(&p2);
            run_body(p2.clone(), objs, 0);
        })
    }));
    let fail = match res {
        Ok(_) => None,
        Err(p) => {
            let c = classify(p);
            // a panic raised between executions (e.g. PCT's "did not exercise any concurrency" assertion in
            // new_execution) belongs to no execution: nothing to snapshot, nothing to replay
            if LOG.with(|l| l.borrow().is_empty()) {
                return (ITER_DATA.with(|d| d.borrow().clone()), Some(format!("outside-execution:{}", c)));
            }
            snapshot_iteration();
            Some(c)
        }
    };
    (ITER_DATA.with(|d| d.borrow().clone()), fail)
}

/// replay <kind> <seed> <param> <iters> <ms> <objs> <bodies>
/// Runs the program under a real built-in scheduler, then replays every execution from its recorded
/// schedule (through the printed string form) and compares the two logs event by event.
pub fn run_replay(words: &[&str]) -> String {
    let [_, kind, seed, param, iters, ms, objs, bodies] = words else {
        return "ERR bad case".to_string();
    };
    let Some(config) = parse_config(ms) else { return "ERR bad max_steps".to_string() };
    let seed: u64 = seed.parse().unwrap();
    let param: usize = param.parse().unwrap();
    let iters: usize = iters.parse().unwrap();
    let prog = parse_prog(objs, bodies);
    let (data, fail) = match *kind {
        "random" => run_recorded(shuttle_schedulers::RandomScheduler::new_from_seed(seed, iters), config.clone(), prog.clone()),
        "pct" => run_recorded(shuttle_schedulers::PctScheduler::new_from_seed(seed, param.max(1), iters), config.clone(), prog.clone()),
        "dfs" => run_recorded(shuttle_schedulers::DfsScheduler::new(Some(iters), true), config.clone(), prog.clone()),
        "rr" => run_recorded(shuttle_schedulers::RoundRobinScheduler::new(iters), config.clone(), prog.clone()),
        "urw" => run_recorded(shuttle_schedulers::UrwRandomScheduler::new_from_seed(seed, iters), config.clone(), prog.clone()),
        _ => return "ERR bad scheduler".to_string(),
    };
    let n = data.len();
    if std::thread::panicking() {
        // see run_reseed: nothing run later in this process can be compared with the run just made
        return "SKIP panicking".to_string();
    }
    let mut out = format!("N={} F={}", n, fail.clone().unwrap_or("-".into()));
    for (i, (log_a, sch)) in data.iter().enumerate() {
        let text = shuttle_engine::scheduler::serialization::serialize_schedule(sch);
        let expect_fail = if i + 1 == n && !fail.as_deref().unwrap_or("").starts_with("outside-execution") {
            fail.clone()
        } else {
            None
        };
        let (rdata, rfail) = {
            let text2 = text.clone();
            // the three public ways of building a replay scheduler are the same scheduler: through the printed text, through
            // a file holding that text (as persisted by FailurePersistence::File), from the Schedule value
            let how = (seed as usize).wrapping_add(i) % 3;
            let sch2 = sch.clone();
            let r = catch_unwind(AssertUnwindSafe(|| match how {
                0 => shuttle_schedulers::ReplayScheduler::new_from_encoded(&text2),
                1 => {
                    let path = std::env::temp_dir().join(format!("vh-replay-{}-{}.txt", std::process::id(), i));
                    std::fs::write(&path, &text2).expect("vharness: cannot write the schedule file");
                    let rs = shuttle_schedulers::ReplayScheduler::new_from_file(&path);
                    let _ = std::fs::remove_file(&path);
                    rs.expect("vharness: cannot read the schedule file")
                }
                _ => shuttle_schedulers::ReplayScheduler::new_from_schedule(sch2),
            }));
            match r {
                Ok(rs) => run_recorded(rs, config.clone(), prog.clone()),
                Err(_) => (vec![], Some("replay-constructor-panicked".to_string())),
            }
        };
        let log_b = rdata.first().map(|x| x.0.clone()).unwrap_or_default();
        if log_a != &log_b || rfail != expect_fail {
            let a: Vec<&str> = log_a.split(' ').collect();
            let b: Vec<&str> = log_b.split(' ').collect();
            let pos = a.iter().zip(b.iter()).position(|(x, y)| x != y).unwrap_or(a.len().min(b.len()));
            out.push_str(&format!(
                " DIFF iter={} pos={} orig={} replay={} origT={} replayT={} schedule={}",
                i,
                pos,
                a.get(pos).unwrap_or(&"<end>"),
                b.get(pos).unwrap_or(&"<end>"),
                expect_fail.unwrap_or("-".into()),
                rfail.unwrap_or("-".into()),
                text.replace('\n', "|")
            ));
            return out;
        }
    }
    out.push_str(" ALLEQ");
    out
}

/// replaytarget <kind> <seed> <param> <iters> <ms> <objs> <bodies>
/// Runs the program under a real built-in scheduler; then, for the last execution (the failing one if the run failed)
/// and up to three target events of it (the last operation record, the one in the middle, the one at a third), replays
/// the recorded schedule with ReplayScheduler::set_target_clock(clock of that record).  Prints the original log and the
/// log and termination of every restricted replay; the judgement (every record whose clock is below the target is
/// reproduced) is made by tools/p_c15.py.
pub fn run_replaytarget(words: &[&str]) -> String {
    // an optional ninth word t<task> asks for one target: the last record of that task
    let (words, pick_task): (&[&str], Option<usize>) = match words {
        [head @ .., last] if words.len() == 9 && last.starts_with('t') => (head, last[1..].parse().ok()),
        _ => (words, None),
    };
    let [_, kind, seed, param, iters, ms, objs, bodies] = words else {
        return "ERR bad case".to_string();
    };
    let Some(config) = parse_config(ms) else { return "ERR bad max_steps".to_string() };
    let seed: u64 = seed.parse().unwrap();
    let param: usize = param.parse().unwrap();
    let iters: usize = iters.parse().unwrap();
    let prog = parse_prog(objs, bodies);
    let Some((data, fail)) = run_kind(kind, seed, param, iters, config.clone(), prog.clone()) else {
        return "ERR bad scheduler".to_string();
    };
    if std::thread::panicking() {
        return "SKIP panicking".to_string();
    }
    let Some((log_a, sch)) = data.last() else { return "SKIP no execution".to_string() };
    if fail.as_deref().unwrap_or("").starts_with("outside-execution") {
        return "SKIP outside".to_string();
    }
    let toks: Vec<&str> = log_a.split(' ').collect();
    let ops: Vec<usize> = toks.iter().enumerate().filter(|(_, t)| t.starts_with('O') && t.contains('@')).map(|(i, _)| i).collect();
    if ops.is_empty() {
        return "SKIP no records".to_string();
    }
    let mut picks = vec![ops[ops.len() - 1], ops[ops.len() / 2], ops[ops.len() / 3]];
    picks.dedup();
    picks.sort();
    picks.dedup();
    if let Some(t) = pick_task {
        let pre = format!("O{}:", t);
        picks = ops.iter().rev().find(|i| toks[**i].starts_with(&pre)).map(|i| vec![*i]).unwrap_or_default();
    }
    let mut out = format!("F={} ORIG={}", fail.clone().unwrap_or("-".into()), log_a.replace(' ', "|"));
    for pk in picks {
        let clk_text = toks[pk].rsplit('@').next().unwrap_or("");
        let clk: Vec<u32> = clk_text.split('.').filter_map(|x| x.parse().ok()).collect();
        if clk.is_empty() {
            continue;
        }
        let sch2 = sch.clone();
        let r = catch_unwind(AssertUnwindSafe(|| {
            let mut rs = shuttle_schedulers::ReplayScheduler::new_from_schedule(sch2);
            rs.set_target_clock(&clk[..]);
            rs
        }));
        let (rdata, rfail) = match r {
            Ok(rs) => run_recorded(rs, config.clone(), prog.clone()),
            Err(_) => (vec![], Some("replay-constructor-panicked".to_string())),
        };
        let log_b = rdata.first().map(|x| x.0.clone()).unwrap_or_default();
        out.push_str(&format!(" TGT={} CLK={} R={} LOG={}", pk, clk_text, rfail.unwrap_or("-".into()), log_b.replace(' ', "|")));
        if std::thread::panicking() {
            out.push_str(" STOP=panicking");
            break;
        }
    }
    out
}

fn run_kind(kind: &str, seed: u64, param: usize, iters: usize, config: Config, prog: Arc<Prog>) -> Option<(Vec<(String, Schedule)>, Option<String>)> {
    Some(match kind {
        "random" => run_recorded(shuttle_schedulers::RandomScheduler::new_from_seed(seed, iters), config, prog),
        "pct" => run_recorded(shuttle_schedulers::PctScheduler::new_from_seed(seed, param.max(1), iters), config, prog),
        "dfs" => run_recorded(shuttle_schedulers::DfsScheduler::new(Some(iters), true), config, prog),
        "rr" => run_recorded(shuttle_schedulers::RoundRobinScheduler::new(iters), config, prog),
        "urw" => run_recorded(shuttle_schedulers::UrwRandomScheduler::new_from_seed(seed, iters), config, prog),
        _ => return None,
    })
}

/// twice <kind> <seed> <param> <iters> <ms> <objs> <bodies>: two runs of the same body with a scheduler built from
/// the same seed must perform the same sequence of executions
pub fn run_twice(words: &[&str]) -> String {
    let [_, kind, seed, param, iters, ms, objs, bodies] = words else {
        return "ERR bad case".to_string();
    };
    let Some(config) = parse_config(ms) else { return "ERR bad max_steps".to_string() };
    let seed: u64 = seed.parse().unwrap();
    let param: usize = param.parse().unwrap();
    let iters: usize = iters.parse().unwrap();
    let prog = parse_prog(objs, bodies);
    let Some((a, fa)) = run_kind(kind, seed, param, iters, config.clone(), prog.clone()) else { return "ERR bad scheduler".to_string() };
    if std::thread::panicking() {
        return "SKIP panicking".to_string();
    }
    let Some((b, fb)) = run_kind(kind, seed, param, iters, config, prog) else { return "ERR bad scheduler".to_string() };
    if a.len() != b.len() || fa != fb {
        return format!("DIFF iterations {} vs {} fail {:?} vs {:?}", a.len(), b.len(), fa, fb);
    }
    for (i, ((la, sa), (lb, sb))) in a.iter().zip(b.iter()).enumerate() {
        if la != lb || sa != sb {
            let x: Vec<&str> = la.split(' ').collect();
            let y: Vec<&str> = lb.split(' ').collect();
            let pos = x.iter().zip(y.iter()).position(|(p, q)| p != q).unwrap_or(x.len().min(y.len()));
            return format!("DIFF iter={} pos={} a={} b={} seedA={} seedB={}", i, pos, x.get(pos).unwrap_or(&"<end>"), y.get(pos).unwrap_or(&"<end>"), sa.seed, sb.seed);
        }
    }
    let multi = a.iter().filter(|(l, _)| l.contains(",")).count();
    format!("SAME N={} F={} multi={}", a.len(), fa.unwrap_or("-".into()), multi)
}

/// outcomes <cap> <ms> <objs> <bodies>: exhaustive DFS over the real runtime; prints the distinct outcomes
/// (per-task operation results and termination), `|`-separated, and whether the enumeration was complete
pub fn run_outcomes(words: &[&str]) -> String {
    let [_, cap, ms, objs, bodies] = words else {
        return "ERR bad case".to_string();
    };
    let Some(config) = parse_config(ms) else { return "ERR bad max_steps".to_string() };
    let cap: usize = cap.parse().unwrap();
    let prog = parse_prog(objs, bodies);
    let mut outs: std::collections::BTreeSet<String> = std::collections::BTreeSet::new();
    let (data, fail) = run_recorded(shuttle_schedulers::DfsScheduler::new(Some(cap), false), config, prog);
    let n = data.len();
    // a failing execution (deadlock/panic) ends the run: continue the enumeration from there is not possible with the
    // plain DfsScheduler, so failing programs are reported as incomplete unless the failure is the last schedule
    for (i, (log, _)) in data.iter().enumerate() {
        let mut per_task: std::collections::BTreeMap<usize, Vec<String>> = std::collections::BTreeMap::new();
        for ev in log.split(' ') {
            if let Some(rest) = ev.strip_prefix('O') {
                let head = rest.split('@').next().unwrap_or("");
                let mut it = head.splitn(3, ':');
                let t: usize = it.next().unwrap_or("0").parse().unwrap_or(0);
                let tag = it.next().unwrap_or("");
                let vals = it.next().unwrap_or("");
                if tag == "9" || tag == "30" {
                    continue;
                }
                per_task.entry(t).or_default().push(format!("{}:{}", tag, vals));
            }
        }
        let term = if i + 1 == n { fail.clone().unwrap_or("ok".into()) } else { "ok".to_string() };
        let s = per_task.iter().map(|(t, v)| format!("{}={}", t, v.join(","))).collect::<Vec<_>>().join(";");
        outs.insert(format!("{}#{}", s, term));
    }
    let complete = fail.is_none() && n < cap;
    format!("N={} complete={} {}", n, complete as u8, outs.into_iter().collect::<Vec<_>>().join("|"))
}

/// reseed <seed> <iters> <ms> <objs> <bodies>: every iteration of the random scheduler, re-run from the seed it
/// reported with one iteration, must be reproduced exactly (data draws included)
pub fn run_reseed(words: &[&str]) -> String {
    let [_, seed, iters, ms, objs, bodies] = words else {
        return "ERR bad case".to_string();
    };
    let Some(config) = parse_config(ms) else { return "ERR bad max_steps".to_string() };
    let prog = parse_prog(objs, bodies);
    let Some((a, fa)) = run_kind("random", seed.parse().unwrap(), 0, iters.parse().unwrap(), config.clone(), prog.clone()) else {
        return "ERR".to_string();
    };
    if std::thread::panicking() {
        // a task of the first run was abandoned in the middle of unwinding (observation O6): this thread now reports
        // panicking() for ever, which changes how later runs behave; nothing can be compared in this process
        return "SKIP panicking".to_string();
    }
    for (i, (la, sa)) in a.iter().enumerate() {
        let Some((b, fb)) = run_kind("random", sa.seed, 0, 1, config.clone(), prog.clone()) else { return "ERR".to_string() };
        let expect_fail = if i + 1 == a.len() { fa.clone() } else { None };
        let lb = b.first().map(|x| x.0.clone()).unwrap_or_default();
        if &lb != la || fb != expect_fail {
            let x: Vec<&str> = la.split(' ').collect();
            let y: Vec<&str> = lb.split(' ').collect();
            let pos = x.iter().zip(y.iter()).position(|(p, q)| p != q).unwrap_or(x.len().min(y.len()));
            return format!("DIFF iter={} seed={} pos={} orig={} rerun={} origT={:?} rerunT={:?}", i, sa.seed, pos, x.get(pos).unwrap_or(&"<end>"), y.get(pos).unwrap_or(&"<end>"), expect_fail, fb);
        }
    }
    format!("SAME N={} F={}", a.len(), fa.unwrap_or("-".into()))
}

/// nondet <seed> <iters> <ms> <objs> <bodies>: the uncontrolled-nondeterminism checker must accept the program
pub fn run_nondet(words: &[&str]) -> String {
    let [_, seed, iters, ms, objs, bodies] = words else {
        return "ERR bad case".to_string();
    };
    let Some(config) = parse_config(ms) else { return "ERR bad max_steps".to_string() };
    let prog = parse_prog(objs, bodies);
    let sched = shuttle_schedulers::UncontrolledNondeterminismCheckScheduler::new(shuttle_schedulers::RandomScheduler::new_from_seed(
        seed.parse().unwrap(),
        iters.parse().unwrap(),
    ));
    LOG.with(|l| l.borrow_mut().clear());
    let p2 = prog.clone();
    let res = catch_unwind(AssertUnwindSafe(|| {
        Runner::new(sched, config).run(move || {
            let objs = start_exec(&p2);
            run_body(p2.clone(), objs, 0);
        })
    }));
    match res {
        Ok(n) => format!("ND ok {}", n),
        Err(p) => {
            let msg = if let Some(s) = p.downcast_ref::<String>() {
                s.clone()
            } else if let Some(s) = p.downcast_ref::<&str>() {
                s.to_string()
            } else {
                "<payload>".to_string()
            };
            if msg.contains("nondeterminism") || msg.contains("non-determinism") {
                format!("ND rejected {}", msg.replace([' ', '\n'], "_").chars().take(160).collect::<String>())
            } else {
                format!("ND failed-otherwise {}", msg.replace([' ', '\n'], "_").chars().take(80).collect::<String>())
            }
        }
    }
}

/// One scripted run with a given failure-persistence mode; reports termination, the panic payload class and the
/// recorded schedule in its printed string form.
pub fn run_with_persistence(words: &[&str], persist: &str, dir: &str) -> String {
    let [ms, script, rseed, objs, bodies] = words else {
        return "ERR bad case".to_string();
    };
    let Some(mut config) = parse_config(ms) else { return "ERR bad max_steps".to_string() };
    // <persistence>[+e][+d]: e = immediately_return_on_panic, d = ContinuationFunctionBehavior::Drop
    let mut pit = persist.split('+');
    let persist = pit.next().unwrap_or("");
    for flag in pit {
        match flag {
            "e" => config.ungraceful_shutdown_config.immediately_return_on_panic = true,
            "d" => config.ungraceful_shutdown_config.continuation_function_behavior = shuttle_engine::ContinuationFunctionBehavior::Drop,
            _ => return "ERR bad persistence flag".to_string(),
        }
    }
    config.failure_persistence = match persist {
        "none" => FailurePersistence::None,
        "print" => FailurePersistence::Print,
        // File(None): "the current directory" (the history process is started inside `dir`)
        "cwd" => FailurePersistence::File(None),
        _ => FailurePersistence::File(Some(std::path::PathBuf::from(dir))),
    };
    let script: Vec<Option<usize>> = crate::split_list(script, ',')
        .iter()
        .map(|w| if *w == "x" { None } else { Some(w.parse().unwrap()) })
        .collect();
    let prog = parse_prog(objs, bodies);
    let sched = Scripted { script, pos: 0, rnd: rseed.parse().unwrap(), started: false };
    LOG.with(|l| l.borrow_mut().clear());
    let p2 = prog.clone();
    let res = catch_unwind(AssertUnwindSafe(|| {
        Runner::new(sched, config).run(move || {
            let objs = start_exec(&p2);
            run_body(p2.clone(), objs, 0);
        })
    }));
    let recorded = CurrentSchedule::get_schedule();
    let text = shuttle_engine::scheduler::serialization::serialize_schedule(&recorded).replace('\n', "|");
    match res {
        Ok(_) => format!("T=ok payload=- S={}", text),
        Err(p) => {
            let msg = if let Some(s) = p.downcast_ref::<String>() {
                s.clone()
            } else if let Some(s) = p.downcast_ref::<&str>() {
                s.to_string()
            } else {
                "<non-string>".to_string()
            };
            let class = if msg == "vpanic" {
                "vpanic"
            } else if msg.starts_with("deadlock!") {
                "deadlock"
            } else if msg.starts_with("exceeded max_steps bound") {
                "max_steps"
            } else {
                "other"
            };
            format!("T={} payload={} S={}", classify(Box::new(msg)), class, text)
        }
    }
}


fn payload_class(p: &Box<dyn std::any::Any + Send>) -> String {
    let msg = if let Some(s) = p.downcast_ref::<String>() {
        s.clone()
    } else if let Some(s) = p.downcast_ref::<&str>() {
        s.to_string()
    } else {
        "<non-string>".to_string()
    };
    if msg == "vpanic" {
        "vpanic".to_string()
    } else if msg.starts_with("deadlock!") {
        "deadlock".to_string()
    } else if msg.starts_with("exceeded max_steps bound") {
        "max_steps".to_string()
    } else {
        format!("other:{}", msg.chars().filter(|c| !c.is_whitespace()).take(60).collect::<String>())
    }
}

fn member(spec: &str) -> Option<Box<dyn Scheduler + Send + 'static>> {
    let f: Vec<&str> = spec.split('.').collect();
    let n = |i: usize| f.get(i).and_then(|x| x.parse::<u64>().ok());
    Some(match f[0] {
        "dfs" => Box::new(shuttle_schedulers::DfsScheduler::new(Some(n(1)? as usize), false)),
        "rr" => Box::new(shuttle_schedulers::RoundRobinScheduler::new(n(1)? as usize)),
        "random" => Box::new(shuttle_schedulers::RandomScheduler::new_from_seed(n(1)?, n(2)? as usize)),
        "urw" => Box::new(shuttle_schedulers::UrwRandomScheduler::new_from_seed(n(1)?, n(2)? as usize)),
        "pct" => Box::new(shuttle_schedulers::PctScheduler::new_from_seed(n(1)?, n(2)? as usize, n(3)? as usize)),
        _ => return None,
    })
}

/// portfolio <stop 0|1> <member,member,...> <ms> <objs> <bodies>: every member alone under a Runner, then all of them in
/// a PortfolioRunner; prints the payload class of each (ok = passed).
pub fn run_portfolio(words: &[&str]) -> String {
    let [_, stop, members, ms, objs, bodies] = words else {
        return "ERR bad case".to_string();
    };
    let Some(mut config) = parse_config(ms) else { return "ERR bad max_steps".to_string() };
    config.failure_persistence = FailurePersistence::None;
    let prog = parse_prog(objs, bodies);
    let specs: Vec<&str> = members.split(',').collect();
    let mut alone = Vec::new();
    for sp in specs.iter() {
        let Some(m) = member(sp) else { return "ERR bad member".to_string() };
        let (p2, cfg) = (prog.clone(), config.clone());
        // on its own thread, as in the portfolio
        let r = std::thread::spawn(move || {
            catch_unwind(AssertUnwindSafe(|| {
                Runner::new(m, cfg).run(move || {
                    let objs = start_exec(&p2);
                    run_body(p2.clone(), objs, 0);
                })
            }))
        })
        .join();
        alone.push(match r {
            Ok(Ok(_)) => "ok".to_string(),
            Ok(Err(p)) => payload_class(&p),
            Err(_) => "thread-died".to_string(),
        });
    }
    let mut pf = shuttle_engine::PortfolioRunner::new(*stop == "1", config);
    for sp in specs.iter() {
        pf.add(member(sp).unwrap());
    }
    let p2 = prog.clone();
    let r = catch_unwind(AssertUnwindSafe(|| {
        pf.run(move || {
            let objs = start_exec(&p2);
            run_body(p2.clone(), objs, 0);
        })
    }));
    let pr = match r {
        Ok(()) => "ok".to_string(),
        Err(p) => payload_class(&p),
    };
    format!("P={} M={}", pr, alone.join(","))
}

/// replaytext <text> <ms> <objs> <bodies>: runs the program under ReplayScheduler::new_from_encoded(text)
pub fn run_replaytext(words: &[&str]) -> String {
    let [_, text, ms, objs, bodies] = words else {
        return "ERR bad case".to_string();
    };
    let Some(config) = parse_config(ms) else { return "ERR bad max_steps".to_string() };
    let prog = parse_prog(objs, bodies);
    let text = text.replace('|', "\n");
    let r = catch_unwind(AssertUnwindSafe(|| shuttle_schedulers::ReplayScheduler::new_from_encoded(&text)));
    match r {
        Ok(rs) => {
            let (_, f) = run_recorded(rs, config, prog);
            format!("T={}", f.unwrap_or("ok".into()))
        }
        Err(_) => "T=replay-constructor-panicked".to_string(),
    }
}

/// A scheduler wrapper that abandons some executions: in iteration i (0-based) with i % 3 == 1 it answers None to the
/// decision number (seed + i) % 11 (if the execution gets that far).
struct Stopper<S> {
    inner: S,
    seed: u64,
    iter: u64,
    decisions: u64,
    enabled: bool,
}
impl<S: Scheduler> Scheduler for Stopper<S> {
    fn new_execution(&mut self) -> Option<Schedule> {
        let r = self.inner.new_execution();
        if r.is_some() {
            self.iter += 1;
            self.decisions = 0;
        }
        r
    }
    fn next_task(&mut self, runnable: &[&Task], current: Option<TaskId>, is_yielding: bool) -> Option<TaskId> {
        let i = self.iter - 1;
        if self.enabled && i % 3 == 1 && self.decisions == (self.seed + i) % 11 {
            return None;
        }
        self.decisions += 1;
        self.inner.next_task(runnable, current, is_yielding)
    }
    fn next_u64(&mut self) -> u64 {
        self.inner.next_u64()
    }
}

/// iters <kind> <seed> <param> <iters> <stop 0|1> <ms> <objs> <bodies>: one run of several executions under a built-in
/// scheduler (optionally abandoning some of them); prints, per execution, its log and its recorded schedule.
pub fn run_iters(words: &[&str]) -> String {
    let [_, kind, seed, param, iters, stop, ms, objs, bodies] = words else {
        return "ERR bad case".to_string();
    };
    let Some(config) = parse_config(ms) else { return "ERR bad max_steps".to_string() };
    let seed: u64 = seed.parse().unwrap();
    let param: usize = param.parse().unwrap();
    let iters: usize = iters.parse().unwrap();
    let enabled = *stop == "1";
    let prog = parse_prog(objs, bodies);
    macro_rules! go {
        ($s:expr) => {
            run_recorded(Stopper { inner: $s, seed, iter: 0, decisions: 0, enabled }, config, prog)
        };
    }
    let (data, fail) = match *kind {
        "random" => go!(shuttle_schedulers::RandomScheduler::new_from_seed(seed, iters)),
        "pct" => go!(shuttle_schedulers::PctScheduler::new_from_seed(seed, param.max(1), iters)),
        "dfs" => go!(shuttle_schedulers::DfsScheduler::new(Some(iters), true)),
        "rr" => go!(shuttle_schedulers::RoundRobinScheduler::new(iters)),
        "urw" => go!(shuttle_schedulers::UrwRandomScheduler::new_from_seed(seed, iters)),
        _ => return "ERR bad scheduler".to_string(),
    };
    let mut out = format!("K={} F={}", data.len(), fail.unwrap_or("-".into()));
    for (log, sch) in data.iter() {
        out.push_str(" | ");
        out.push_str(log);
        out.push_str(" S=");
        out.push_str(&show_schedule(sch));
    }
    out
}

/// probe f17 <try 0|1>: the directed scenario of known finding F17 (C18), which the program language cannot express
/// (it polls an Acquire future by hand): one task holds a queued, pending `acquire(5)` on an unfair semaphore with one
/// permit and then acquires that permit itself; `reblock_if_unfair` then blocks the queued waiter's task, which is
/// the running task.  Explored exhaustively; prints OK or the failure.
pub fn run_probe(words: &[&str]) -> String {
    let [_, what, arg] = words else { return "ERR bad case".to_string() };
    if *what == "jhmove" {
        return probe_jhmove();
    }
    if *what == "oncepoison" {
        return probe_oncepoison(*arg == "1");
    }
    if *what == "caughtpanic" {
        return probe_caughtpanic(arg.parse().unwrap_or(1));
    }
    if *what != "f17" {
        return "ERR unknown probe".to_string();
    }
    let use_try = *arg == "1";
    let mut config = Config::new();
    config.failure_persistence = FailurePersistence::None;
    let res = catch_unwind(AssertUnwindSafe(|| {
        Runner::new(shuttle_schedulers::DfsScheduler::new(Some(2000), false), config).run(move || {
            let s = BatchSemaphore::new(1, Fairness::Unfair);
            shuttle::future::block_on(async move {
                use std::future::Future;
                let mut big = Box::pin(s.acquire(5));
                let r = std::future::poll_fn(|cx| std::task::Poll::Ready(big.as_mut().poll(cx))).await;
                assert!(r.is_pending());
                if use_try {
                    s.try_acquire(1).unwrap();
                } else {
                    s.acquire(1).await.unwrap();
                }
                thread::yield_now();
                s.release(1);
                drop(big);
            });
        })
    }));
    match res {
        Ok(n) => format!("PROBE OK N={}", n),
        Err(p) => format!("PROBE FAIL {}", classify(p)),
    }
}

/// probe caughtpanic <k>: a run of k+1 executions under the round-robin scheduler (the same schedule every time); the first
/// k executions raise a panic and handle it themselves (catch_unwind) when their schedule has some length L and then pass,
/// execution k really fails at the same length.  Prints how many schedule files were written while the failing execution
/// ran (FailurePersistence::File): the failure must be persisted whatever the earlier executions did.
fn probe_caughtpanic(k: usize) -> String {
    use std::sync::atomic::{AtomicUsize, Ordering as O};
    static EXEC: AtomicUsize = AtomicUsize::new(0);
    static BEFORE: AtomicUsize = AtomicUsize::new(0);
    static K: AtomicUsize = AtomicUsize::new(0);
    let dir = std::env::temp_dir().join(format!("vh-caught-{}-{}", std::process::id(), k));
    let _ = std::fs::remove_dir_all(&dir);
    std::fs::create_dir_all(&dir).expect("vharness: cannot create the probe directory");
    let count = |d: &std::path::Path| std::fs::read_dir(d).map(|r| r.count()).unwrap_or(0);
    EXEC.store(0, O::SeqCst);
    K.store(k, O::SeqCst);
    let mut config = Config::new();
    config.failure_persistence = FailurePersistence::File(Some(dir.clone()));
    let d2 = dir.clone();
    let res = catch_unwind(AssertUnwindSafe(|| {
        Runner::new(shuttle_schedulers::RoundRobinScheduler::new(k + 1), config).run(move || {
            let i = EXEC.fetch_add(1, O::SeqCst);
            let h = thread::spawn(|| thread::yield_now());
            for _ in 0..3 {
                thread::yield_now();
            }
            if i < K.load(O::SeqCst) {
                let r = catch_unwind(|| panic!("vharness: handled inside the body"));
                assert!(r.is_err());
            } else {
                BEFORE.store(std::fs::read_dir(&d2).map(|r| r.count()).unwrap_or(0), O::SeqCst);
                panic!("vharness: the real failure");
            }
            h.join().unwrap();
        })
    }));
    let after = count(&dir);
    let _ = std::fs::remove_dir_all(&dir);
    format!("PROBE failed={} executions={} files_during_failing_execution={}", res.is_err() as u8, EXEC.load(O::SeqCst), after.saturating_sub(BEFORE.load(O::SeqCst)))
}

/// probe oncepoison <0|1>: a Once whose first initialiser panicked (caught by the body), then two threads calling
/// call_once_force.  0: one scripted schedule in which the second caller enters call_once_force (and queues on the cell's
/// internal lock) before the first one publishes completion, and gets the lock only after the first has returned: exactly
/// one initialiser must run to completion.  1: all schedules (DFS).  Prints how many initialisers completed.
fn probe_oncepoison(explore: bool) -> String {
    use std::sync::atomic::{AtomicUsize, Ordering as O};
    static COMPLETED: AtomicUsize = AtomicUsize::new(0);
    static MAXC: AtomicUsize = AtomicUsize::new(0);
    struct Script {
        phase: u8,
        ran: bool,
    }
    impl Scheduler for Script {
        fn new_execution(&mut self) -> Option<Schedule> {
            if self.ran {
                None
            } else {
                self.ran = true;
                self.phase = 0;
                Some(Schedule::new(0))
            }
        }
        fn next_task(&mut self, runnable: &[&Task], _current: Option<TaskId>, _y: bool) -> Option<TaskId> {
            let has = |id: usize| runnable.iter().any(|t| usize::from(t.id()) == id);
            let lowest = runnable.iter().map(|t| t.id()).min().unwrap();
            // main until it blocks joining task 1; then task 2 up to its first scheduling point; then task 1 to its end;
            // then the lowest runnable id
            Some(match self.phase {
                0 if has(0) => TaskId::from(0),
                0 => {
                    self.phase = 1;
                    if has(2) { TaskId::from(2) } else { lowest }
                }
                1 => {
                    self.phase = 2;
                    if has(1) { TaskId::from(1) } else { lowest }
                }
                2 if has(1) => TaskId::from(1),
                _ => {
                    self.phase = 3;
                    lowest
                }
            })
        }
        fn next_u64(&mut self) -> u64 {
            0
        }
    }
    let body = || {
        COMPLETED.store(0, O::SeqCst);
        let once = Arc::new(shuttle::sync::Once::new());
        let r = catch_unwind(AssertUnwindSafe(|| once.call_once(|| panic!("vharness: expected panic"))));
        assert!(r.is_err());
        let hs: Vec<_> = (0..2)
            .map(|_| {
                let once = once.clone();
                thread::spawn(move || {
                    once.call_once_force(|_| {
                        COMPLETED.fetch_add(1, O::SeqCst);
                    });
                })
            })
            .collect();
        for h in hs {
            h.join().unwrap();
        }
        MAXC.fetch_max(COMPLETED.load(O::SeqCst), O::SeqCst);
        assert_eq!(COMPLETED.load(O::SeqCst), 1, "vharness: initialisers completed");
    };
    MAXC.store(0, O::SeqCst);
    let mut config = Config::new();
    config.failure_persistence = FailurePersistence::None;
    let res = if explore {
        catch_unwind(AssertUnwindSafe(|| Runner::new(shuttle_schedulers::DfsScheduler::new(Some(3000), false), config).run(body)))
    } else {
        catch_unwind(AssertUnwindSafe(|| Runner::new(Script { phase: 0, ran: false }, config).run(body)))
    };
    match res {
        Ok(n) => format!("PROBE OK N={} completed={}", n, MAXC.load(O::SeqCst)),
        Err(p) => {
            let msg = p.downcast_ref::<String>().cloned().or_else(|| p.downcast_ref::<&str>().map(|s| s.to_string())).unwrap_or_default();
            let class = if msg.contains("initialisers completed") {
                "two-initialisers"
            } else if msg.contains("holder.is_none()") {
                "poisoned-mutex-assertion"
            } else {
                "other"
            };
            format!("PROBE FAIL {} completed={} msg={}", class, COMPLETED.load(O::SeqCst), msg.replace([' ', '\n'], "_").chars().take(100).collect::<String>())
        }
    }
}

/// probe jhmove 0: a JoinHandle polled once by task A (Pending: A's waker is registered) and then awaited by another task
/// must wake the task that polled it last (the program language keeps JoinHandles task-local, so this hand-over is a
/// directed scenario).  Explored exhaustively.
fn probe_jhmove() -> String {
    use std::future::Future;
    let mut config = Config::new();
    config.failure_persistence = FailurePersistence::None;
    let res = catch_unwind(AssertUnwindSafe(|| {
        Runner::new(shuttle_schedulers::DfsScheduler::new(Some(5000), false), config).run(move || {
            let gate = Arc::new(BatchSemaphore::new(0, Fairness::StrictlyFair));
            let g2 = gate.clone();
            let worker = shuttle::future::spawn(async move {
                g2.acquire(1).await.unwrap();
                7u64
            });
            let a = shuttle::future::spawn(async move {
                let mut h = worker;
                let first = std::future::poll_fn(|cx| std::task::Poll::Ready(std::pin::Pin::new(&mut h).poll(cx))).await;
                (first.is_ready(), h)
            });
            let (done, h) = shuttle::future::block_on(a).unwrap();
            assert!(!done, "vharness: the worker cannot have finished");
            gate.release(1);
            let v = shuttle::future::block_on(h).unwrap();
            assert_eq!(v, 7);
        })
    }));
    match res {
        Ok(n) => format!("PROBE OK N={}", n),
        Err(p) => format!("PROBE FAIL {}", classify(p)),
    }
}

/// hits <kind> <seed> <param> <iters> <objs> <bodies> <pattern,pattern,...>: one run of `iters` executions; for every
/// pattern the number of executions whose log contains a token starting with it, and the largest number of
/// multi-choice decisions in one execution (PCT's estimate of k).
pub fn run_hits(words: &[&str]) -> String {
    let [_, kind, seed, param, iters, objs, bodies, pats] = words else {
        return "ERR bad case".to_string();
    };
    let mut config = Config::new();
    config.failure_persistence = FailurePersistence::None;
    let prog = parse_prog(objs, bodies);
    let Some((data, fail)) = run_kind(kind, seed.parse().unwrap(), param.parse().unwrap(), iters.parse().unwrap(), config, prog) else {
        return "ERR bad scheduler".to_string();
    };
    let pats: Vec<&str> = pats.split('+').collect();
    let mut hits = vec![0usize; pats.len()];
    let mut k = 0usize;
    for (log, _) in data.iter() {
        let toks: Vec<&str> = log.split(' ').collect();
        for (i, p) in pats.iter().enumerate() {
            // a pattern is a conjunction of token prefixes separated by '&'
            if p.split('&').all(|q| toks.iter().any(|t| t.starts_with(q))) {
                hits[i] += 1;
            }
        }
        k = k.max(toks.iter().filter(|t| t.starts_with("D[") && t[..t.find(']').unwrap_or(0)].contains(',')).count());
    }
    format!("HITS N={} K={} F={} H={}", data.len(), k, fail.unwrap_or("-".into()), hits.iter().map(|h| h.to_string()).collect::<Vec<_>>().join(","))
}

/// timelimit <kind> <seed> <iters> <limit_ms> <sleep_ms>: a run with `max_time` set whose body takes `sleep_ms` of real
/// time.  Prints the returned count, the number of body invocations and, for every invocation, the elapsed
/// milliseconds (since just before `Runner::run`) at its start and end, then the elapsed time at return.
pub fn run_timelimit(words: &[&str]) -> String {
    let [_, kind, seed, iters, limit, sleep] = words else {
        return "ERR bad case".to_string();
    };
    let seed: u64 = seed.parse().unwrap();
    let iters: usize = iters.parse().unwrap();
    let limit: u64 = limit.parse().unwrap();
    let sleep: u64 = sleep.parse().unwrap();
    let mut config = Config::new();
    config.failure_persistence = FailurePersistence::None;
    config.max_time = Some(std::time::Duration::from_millis(limit));
    let times = Arc::new(std::sync::Mutex::new(Vec::<(u128, u128)>::new()));
    let t2 = times.clone();
    let start = std::time::Instant::now();
    let body = move || {
        let a = start.elapsed().as_micros();
        let h = shuttle::thread::spawn(|| shuttle::thread::yield_now());
        shuttle::thread::yield_now();
        h.join().unwrap();
        std::thread::sleep(std::time::Duration::from_millis(sleep));
        let b = start.elapsed().as_micros();
        t2.lock().unwrap().push((a, b));
    };
    let res = catch_unwind(AssertUnwindSafe(|| match *kind {
        "random" => Runner::new(shuttle_schedulers::RandomScheduler::new_from_seed(seed, iters), config).run(body),
        "pct" => Runner::new(shuttle_schedulers::PctScheduler::new_from_seed(seed, 2, iters), config).run(body),
        "dfs" => Runner::new(shuttle_schedulers::DfsScheduler::new(Some(iters), false), config).run(body),
        "rr" => Runner::new(shuttle_schedulers::RoundRobinScheduler::new(iters), config).run(body),
        _ => Runner::new(shuttle_schedulers::UrwRandomScheduler::new_from_seed(seed, iters), config).run(body),
    }));
    let end = start.elapsed().as_micros();
    let ts = times.lock().unwrap().iter().map(|(a, b)| format!("{}-{}", a, b)).collect::<Vec<_>>().join(",");
    match res {
        Ok(n) => format!("TL N={} B={} times={} end={}", n, times.lock().unwrap().len(), if ts.is_empty() { "-".to_string() } else { ts }, end),
        Err(p) => format!("TL FAIL {}", classify(p)),
    }
}

pub fn run(words: &[&str]) -> String {
    if words.first() == Some(&"probe") {
        return run_probe(words);
    }
    if words.first() == Some(&"hits") {
        return run_hits(words);
    }
    if words.first() == Some(&"iters") {
        return run_iters(words);
    }
    if words.first() == Some(&"timelimit") {
        return run_timelimit(words);
    }
    if words.first() == Some(&"replaytext") {
        return run_replaytext(words);
    }
    if words.first() == Some(&"portfolio") {
        return run_portfolio(words);
    }
    if words.first() == Some(&"progdfs") {
        return run_dfs(words);
    }
    if words.first() == Some(&"replaytarget") {
        return run_replaytarget(words);
    }
    if words.first() == Some(&"replay") {
        return run_replay(words);
    }
    if words.first() == Some(&"outcomes") {
        return run_outcomes(words);
    }
    if words.first() == Some(&"reseed") {
        return run_reseed(words);
    }
    if words.first() == Some(&"twice") {
        return run_twice(words);
    }
    if words.first() == Some(&"nondet") {
        return run_nondet(words);
    }
    // wrapped <ann|box> <ms> <script> <rseed> <objs> <bodies>: the same run with the scripted scheduler inside one of the
    // transparent wrappers; what the scripted scheduler sees and answers is logged as usual
    let (wrapper, words) = if words.first() == Some(&"wrapped") && words.len() == 7 {
        (Some(words[1]), &words[1..])
    } else {
        (None, words)
    };
    let [_, ms, script, rseed, objs, bodies] = words else {
        return "ERR bad case".to_string();
    };
    let mut config = Config::new();
    config.failure_persistence = FailurePersistence::None;
    config.max_steps = match ms.split(':').collect::<Vec<_>>()[..] {
        ["none"] => MaxSteps::None,
        ["fail", n] => MaxSteps::FailAfter(n.parse().unwrap()),
        ["cont", n] => MaxSteps::ContinueAfter(n.parse().unwrap()),
        _ => return "ERR bad max_steps".to_string(),
    };
    let script: Vec<Option<usize>> = crate::split_list(script, ',')
        .iter()
        .map(|w| if *w == "x" { None } else { Some(w.parse().unwrap()) })
        .collect();
    let prog = parse_prog(objs, bodies);
    let sched = Scripted {
        script,
        pos: 0,
        rnd: rseed.parse().unwrap(),
        started: false,
    };
    LOG.with(|l| l.borrow_mut().clear());
    LAST_TASK.with(|c| c.set(0));
    let p2 = prog.clone();
    let mark = wrapper == Some("und");
    let body = move || {
        if mark {
            // the nondeterminism checker runs every execution twice (recording, then replay): mark the starts
            log("@@".to_string());
        }
        let objs = start_exec(&p2);
        run_body(p2.clone(), objs, 0);
    };
    let res = catch_unwind(AssertUnwindSafe(|| match wrapper {
        None => Runner::new(sched, config).run(body),
        Some("ann") => Runner::new(shuttle_schedulers::AnnotationScheduler::new(sched), config).run(body),
        Some("und") => Runner::new(shuttle_schedulers::UncontrolledNondeterminismCheckScheduler::new(sched), config).run(body),
        Some("box") => {
            let b: Box<dyn Scheduler + Send> = Box::new(sched);
            Runner::new(b, config).run(body)
        }
        Some(_) => panic!("vharness: unknown wrapper"),
    }));
    let recorded = CurrentSchedule::get_schedule();
    let term = match res {
        Ok(_) => {
            "ok".to_string()
        }
        Err(p) => classify(p),
    };
    let sched_str = recorded
        .steps
        .iter()
        .map(|s| match s {
            ScheduleStep::Task(t) => format!("t{}", usize::from(*t)),
            ScheduleStep::Random => "r".to_string(),
        })
        .collect::<Vec<_>>()
        .join(",");
    let mut out = LOG.with(|l| l.borrow().join(" "));
    if !out.is_empty() {
        out.push(' ');
    }
    format!("{}T={} S={}", out, term, sched_str)
}

