//! tok layer (property C19): runs a program over the tokio-compatible primitives
//! (wrappers/tokio/impls/tokio/inner) on the real Shuttle runtime under a scripted scheduler and prints the
//! decision / draw / op trace in the same canonical form as ocaml/l_tok.ml.  No oracle logic lives here.
//!
//! case:   tok <ms> <script> <rseed> <objs> <bodies>
//!         tokdfs <allow_random 0|1> <maxiter> <objs> <bodies>      (the real DfsScheduler; prints the verdict only)
//! objects (comma separated; operations name them by position):
//!         cB<k>:<ns> bounded mpsc channel, capacity k, ns sender slots (1..3)   cU:<ns> unbounded
//!         s<n> Semaphore::new(n)   m Mutex   w<k> RwLock::with_max_readers(k) (w = RwLock::new)   n Notify   o oneshot
//!         h<init>:<ntx>:<nrx> watch::channel(init) with ntx (1..2) Sender slots and nrx (1..3) Receiver slots (clones made at creation)
use shuttle::thread;
use shuttle_engine::runtime::execution::CurrentSchedule;
use shuttle_engine::runtime::runner::Runner;
use shuttle_engine::scheduler::{Schedule, ScheduleStep, Scheduler, Task, TaskId};
use shuttle_engine::{Config, FailurePersistence, MaxSteps};
use shuttle_tokio_impl_inner as tk;
use std::cell::{Cell, RefCell, UnsafeCell};
use std::future::Future;
use std::panic::{catch_unwind, AssertUnwindSafe};
use std::pin::Pin;
use std::sync::Arc;
use tk::sync::mpsc;
use tk::sync::oneshot;
use tk::sync::watch;

thread_local! {
    static LOG: RefCell<Vec<String>> = const { RefCell::new(Vec::new()) };
    static LAST_TASK: Cell<usize> = const { Cell::new(0) };
}

fn log(s: String) {
    LOG.with(|l| l.borrow_mut().push(s));
}

// ---------------- the scripted scheduler (same as the prog layer) ----------------
pub struct Scripted {
    script: Vec<Option<usize>>,
    pos: usize,
    rnd: u64,
    started: bool,
}

impl Scheduler for Scripted {
    fn new_execution(&mut self) -> Option<Schedule> {
        if self.started {
            None
        } else {
            self.started = true;
            Some(Schedule::new(0))
        }
    }

    fn next_task(&mut self, runnable: &[&Task], current: Option<TaskId>, is_yielding: bool) -> Option<TaskId> {
        let ids: Vec<usize> = runnable.iter().map(|t| usize::from(t.id())).collect();
        let choice = if self.pos >= self.script.len() {
            ids.first().copied()
        } else {
            let c = self.script[self.pos];
            self.pos += 1;
            c.map(|i| ids[i % ids.len()])
        };
        log(format!(
            "D[{}]c{}y{}>{}",
            ids.iter().map(|i| i.to_string()).collect::<Vec<_>>().join(","),
            current.map(|c| usize::from(c).to_string()).unwrap_or("-".into()),
            is_yielding as u8,
            choice.map(|c| c.to_string()).unwrap_or("x".into())
        ));
        choice.map(TaskId::from)
    }

    fn next_u64(&mut self) -> u64 {
        self.rnd = self.rnd.wrapping_mul(6364136223846793005).wrapping_add(1442695040888963407);
        log(format!("R{}", self.rnd));
        self.rnd
    }
}

// ---------------- programs ----------------
#[derive(Clone, Debug)]
enum Op {
    SpawnT(usize),
    JoinT(usize),
    SpawnA(usize),
    AwaitA(usize),
    Yield,
    Send(usize, usize, usize, u64), // kind, channel, slot, value
    Recv(usize, usize),             // kind, channel
    CloseRx(usize),
    DropRx(usize),
    DropTx(usize, usize),
    ChanInfo(usize),
    Acq(usize, u32),
    TryAcq(usize, u32),
    Add(usize, usize),
    Rel(usize),
    Forget(usize),
    SemClose(usize),
    SemInfo(usize),
    Lock(usize),
    TryLock(usize),
    Read(usize),
    Write(usize),
    TryRead(usize),
    TryWrite(usize),
    Notified(usize),
    Enable(usize),
    AwaitN(usize),
    DropN(usize),
    NotifyOne(usize),
    NotifyAll(usize),
    OsSend(usize, u64),
    OsRecv(usize, usize), // kind, object
    OsClose(usize),
    OsDropTx(usize),
    OsDropRx(usize),
    WSend(usize, usize, u64),
    WModify(usize, usize, u64, bool),
    WReplace(usize, usize, u64),
    WBorrow(usize, usize),
    WBorrowUpd(usize, usize),
    WHasChanged(usize, usize),
    WChanged(usize, usize),
    WWaitFor(usize, usize, u64),
    WDropTx(usize, usize),
    WDropRx(usize, usize),
    WSubscribe(usize, usize, usize),
    WClosed(usize, usize),
    WInfo(usize, usize),
    Downgrade(usize),
    Merge(usize),
    Split(usize, usize),
    OsIsClosed(usize),
    OcSet(usize, u64),
    OcGet(usize),
    OcInit(usize, u64, usize, bool),
}

fn parse_op(w: &str) -> Result<Op, String> {
    if w.len() < 2 {
        return Err(format!("bad op {w}"));
    }
    let rest = &w[2..];
    let nums = || -> Result<Vec<u64>, String> {
        if rest.is_empty() {
            return Ok(vec![]);
        }
        rest.split('.').map(|x| x.parse::<u64>().map_err(|_| format!("bad op {w}"))).collect()
    };
    let n = nums()?;
    let a = |i: usize| -> Result<usize, String> { n.get(i).map(|x| *x as usize).ok_or(format!("bad op {w}")) };
    Ok(match &w[..2] {
        "st" => Op::SpawnT(a(0)?),
        "jt" => Op::JoinT(a(0)?),
        "sa" => Op::SpawnA(a(0)?),
        "aw" => Op::AwaitA(a(0)?),
        "yd" => Op::Yield,
        "sd" => Op::Send(0, a(0)?, a(1)?, a(2)? as u64),
        "bs" => Op::Send(1, a(0)?, a(1)?, a(2)? as u64),
        "ts" => Op::Send(2, a(0)?, a(1)?, a(2)? as u64),
        "rc" => Op::Recv(0, a(0)?),
        "br" => Op::Recv(1, a(0)?),
        "tr" => Op::Recv(2, a(0)?),
        "cr" => Op::CloseRx(a(0)?),
        "dr" => Op::DropRx(a(0)?),
        "dt" => Op::DropTx(a(0)?, a(1)?),
        "ci" => Op::ChanInfo(a(0)?),
        "ac" => Op::Acq(a(0)?, a(1)? as u32),
        "ta" => Op::TryAcq(a(0)?, a(1)? as u32),
        "ad" => Op::Add(a(0)?, a(1)?),
        "rl" => Op::Rel(a(0)?),
        "fg" => Op::Forget(a(0)?),
        "sc" => Op::SemClose(a(0)?),
        "si" => Op::SemInfo(a(0)?),
        "lk" => Op::Lock(a(0)?),
        "tl" => Op::TryLock(a(0)?),
        "rd" => Op::Read(a(0)?),
        "wr" => Op::Write(a(0)?),
        "tR" => Op::TryRead(a(0)?),
        "tW" => Op::TryWrite(a(0)?),
        "nf" => Op::Notified(a(0)?),
        "en" => Op::Enable(a(0)?),
        "an" => Op::AwaitN(a(0)?),
        "dn" => Op::DropN(a(0)?),
        "no" => Op::NotifyOne(a(0)?),
        "na" => Op::NotifyAll(a(0)?),
        "os" => Op::OsSend(a(0)?, a(1)? as u64),
        "or" => Op::OsRecv(0, a(0)?),
        "ot" => Op::OsRecv(2, a(0)?),
        "oc" => Op::OsClose(a(0)?),
        "ox" => Op::OsDropTx(a(0)?),
        "oy" => Op::OsDropRx(a(0)?),
        "ws" => Op::WSend(a(0)?, a(1)?, a(2)? as u64),
        "wm" => Op::WModify(a(0)?, a(1)?, a(2)? as u64, a(3)? == 1),
        "wp" => Op::WReplace(a(0)?, a(1)?, a(2)? as u64),
        "wb" => Op::WBorrow(a(0)?, a(1)?),
        "wu" => Op::WBorrowUpd(a(0)?, a(1)?),
        "wh" => Op::WHasChanged(a(0)?, a(1)?),
        "wc" => Op::WChanged(a(0)?, a(1)?),
        "wf" => Op::WWaitFor(a(0)?, a(1)?, a(2)? as u64),
        "wx" => Op::WDropTx(a(0)?, a(1)?),
        "wy" => Op::WDropRx(a(0)?, a(1)?),
        "wn" => Op::WSubscribe(a(0)?, a(1)?, a(2)?),
        "wl" => Op::WClosed(a(0)?, a(1)?),
        "wi" => Op::WInfo(a(0)?, a(1)?),
        "dg" => Op::Downgrade(a(0)?),
        "mg" => Op::Merge(a(0)?),
        "sp" => Op::Split(a(0)?, a(1)?),
        "oi" => Op::OsIsClosed(a(0)?),
        "xs" => Op::OcSet(a(0)?, a(1)? as u64),
        "xg" => Op::OcGet(a(0)?),
        "xi" => Op::OcInit(a(0)?, a(1)? as u64, a(2)?, true),
        "xt" => Op::OcInit(a(0)?, a(1)? as u64, a(2)?, a(3)? == 1),
        _ => return Err(format!("bad op {w}")),
    })
}

enum TxEnd {
    B(mpsc::Sender<u64>),
    U(mpsc::UnboundedSender<u64>),
}
enum RxEnd {
    B(mpsc::Receiver<u64>),
    U(mpsc::UnboundedReceiver<u64>),
}

/// Endpoints of one channel.  The whole harness runs on one OS thread; every endpoint is used by one body only
/// (checked by the generator), it is reached through an UnsafeCell because the body borrows it across awaits.
struct ChanObj {
    bounded: bool,
    txs: UnsafeCell<Vec<Option<TxEnd>>>,
    rx: UnsafeCell<Option<RxEnd>>,
}

struct OsObj {
    tx: UnsafeCell<Option<oneshot::Sender<u64>>>,
    rx: UnsafeCell<Option<oneshot::Receiver<u64>>>,
}

/// Endpoints of one watch channel (same discipline as ChanObj).
struct WatchObj {
    txs: UnsafeCell<Vec<Option<watch::Sender<u64>>>>,
    rxs: UnsafeCell<Vec<Option<watch::Receiver<u64>>>>,
}

enum Obj {
    Chan(ChanObj),
    Watch(WatchObj),
    OnceCell(tk::sync::OnceCell<u64>),
    Sem(Arc<tk::sync::Semaphore>),
    Mutex(Arc<tk::sync::Mutex<()>>),
    RwLock(Arc<tk::sync::RwLock<()>>),
    Notify(tk::sync::Notify),
    Oneshot(OsObj),
}

struct Objs {
    objs: Vec<Obj>,
    /// index of each object in the model's store (a channel occupies three entries)
    base: Vec<usize>,
}
unsafe impl Send for Objs {}
unsafe impl Sync for Objs {}

impl Drop for Objs {
    fn drop(&mut self) {
        // Endpoints still alive when the execution ends are leaked: their destructors contain scheduling points
        // and this drop runs wherever the last reference happens to go away.
        for o in self.objs.iter_mut() {
            match o {
                Obj::Chan(c) => {
                    for t in c.txs.get_mut().iter_mut() {
                        std::mem::forget(t.take());
                    }
                    std::mem::forget(c.rx.get_mut().take());
                }
                Obj::Oneshot(c) => {
                    std::mem::forget(c.tx.get_mut().take());
                    std::mem::forget(c.rx.get_mut().take());
                }
                Obj::Watch(c) => {
                    for t in c.txs.get_mut().iter_mut() {
                        std::mem::forget(t.take());
                    }
                    for t in c.rxs.get_mut().iter_mut() {
                        std::mem::forget(t.take());
                    }
                }
                _ => {}
            }
        }
    }
}

struct Prog {
    bodies: Vec<Vec<Op>>,
    obj_specs: Vec<String>,
}

fn make_objs(specs: &[String]) -> Result<Objs, String> {
    let mut objs = Vec::new();
    let mut base = Vec::new();
    let mut next = 0usize;
    for w in specs {
        base.push(next);
        let bad = || format!("bad object {w}");
        match w.as_bytes()[0] {
            b'c' => {
                let parts: Vec<&str> = w[1..].split(':').collect();
                if parts.len() != 2 || parts[0].is_empty() {
                    return Err(bad());
                }
                let ns: usize = parts[1].parse().map_err(|_| bad())?;
                if ns == 0 || ns > 3 {
                    return Err(bad());
                }
                let (txs, rx, bounded) = if parts[0] == "U" {
                    let (tx, rx) = mpsc::unbounded_channel::<u64>();
                    let mut v: Vec<Option<TxEnd>> = (1..ns).map(|_| Some(TxEnd::U(tx.clone()))).collect();
                    v.insert(0, Some(TxEnd::U(tx)));
                    (v, RxEnd::U(rx), false)
                } else {
                    let k: usize = parts[0][1..].parse().map_err(|_| bad())?;
                    let (tx, rx) = mpsc::channel::<u64>(k);
                    let mut v: Vec<Option<TxEnd>> = (1..ns).map(|_| Some(TxEnd::B(tx.clone()))).collect();
                    v.insert(0, Some(TxEnd::B(tx)));
                    (v, RxEnd::B(rx), true)
                };
                let mut txs = txs;
                while txs.len() < 3 {
                    txs.push(None);
                }
                objs.push(Obj::Chan(ChanObj { bounded, txs: UnsafeCell::new(txs), rx: UnsafeCell::new(Some(rx)) }));
                next += 3;
            }
            b's' => {
                objs.push(Obj::Sem(Arc::new(tk::sync::Semaphore::new(w[1..].parse().map_err(|_| bad())?))));
                next += 1;
            }
            b'm' => {
                objs.push(Obj::Mutex(Arc::new(tk::sync::Mutex::new(()))));
                next += 1;
            }
            b'w' => {
                let l = if w.len() == 1 {
                    tk::sync::RwLock::new(())
                } else {
                    tk::sync::RwLock::with_max_readers((), w[1..].parse().map_err(|_| bad())?)
                };
                objs.push(Obj::RwLock(Arc::new(l)));
                next += 1;
            }
            b'n' => {
                objs.push(Obj::Notify(tk::sync::Notify::new()));
                next += 1;
            }
            b'h' => {
                let parts: Vec<&str> = w[1..].split(':').collect();
                if parts.len() != 3 {
                    return Err(bad());
                }
                let init: u64 = parts[0].parse().map_err(|_| bad())?;
                let ntx: usize = parts[1].parse().map_err(|_| bad())?;
                let nrx: usize = parts[2].parse().map_err(|_| bad())?;
                if ntx == 0 || ntx > 2 || nrx == 0 || nrx > 3 {
                    return Err(bad());
                }
                let (tx, rx) = watch::channel::<u64>(init);
                let mut txs: Vec<Option<watch::Sender<u64>>> = vec![None, None];
                let mut rxs: Vec<Option<watch::Receiver<u64>>> = vec![None, None, None];
                for slot in rxs.iter_mut().take(nrx).skip(1) {
                    *slot = Some(rx.clone());
                }
                rxs[0] = Some(rx);
                if ntx > 1 {
                    txs[1] = Some(tx.clone());
                }
                txs[0] = Some(tx);
                objs.push(Obj::Watch(WatchObj { txs: UnsafeCell::new(txs), rxs: UnsafeCell::new(rxs) }));
                next += 4;
            }
            b'x' => {
                objs.push(Obj::OnceCell(tk::sync::OnceCell::new()));
                next += 2;
            }
            b'o' => {
                let (tx, rx) = oneshot::channel::<u64>();
                objs.push(Obj::Oneshot(OsObj { tx: UnsafeCell::new(Some(tx)), rx: UnsafeCell::new(Some(rx)) }));
                next += 1;
            }
            _ => return Err(bad()),
        }
    }
    Ok(Objs { objs, base })
}

fn me() -> usize {
    usize::from(shuttle::current::me())
}

fn log_op(tag: u32, vals: &[u64]) {
    let clk = shuttle::current::clock();
    let clk: Vec<String> = clk.iter().map(|x| x.to_string()).collect();
    log(format!(
        "O{}:{}:{}@{}",
        me(),
        tag,
        vals.iter().map(|v| v.to_string()).collect::<Vec<_>>().join(","),
        clk.join(".")
    ));
}

/// Runs a future that is known never to be Pending (a thread body: its awaits are block_on calls).
fn drive_ready<F: Future>(f: F) -> F::Output {
    let mut f = Box::pin(f);
    let waker = std::task::Waker::noop();
    let mut cx = std::task::Context::from_waker(waker);
    match f.as_mut().poll(&mut cx) {
        std::task::Poll::Ready(v) => v,
        std::task::Poll::Pending => panic!("vharness: a thread body suspended"),
    }
}

struct SendFut<F>(F);
unsafe impl<F> Send for SendFut<F> {}
impl<F: Future> Future for SendFut<F> {
    type Output = F::Output;
    fn poll(self: Pin<&mut Self>, cx: &mut std::task::Context<'_>) -> std::task::Poll<F::Output> {
        // SAFETY: structural pinning of the only field
        unsafe { self.map_unchecked_mut(|s| &mut s.0) }.poll(cx)
    }
}

/// Bodies with an odd index go through the `_owned` variants of every acquisition (same operations on an Arc).
enum Held<'a> {
    Permit(tk::sync::SemaphorePermit<'a>),
    MG(tk::sync::MutexGuard<'a, ()>),
    RG(tk::sync::RwLockReadGuard<'a, ()>),
    WG(tk::sync::RwLockWriteGuard<'a, ()>, u64),
    OPermit(tk::sync::OwnedSemaphorePermit),
    OMG(tk::sync::OwnedMutexGuard<()>),
    ORG(tk::sync::OwnedRwLockReadGuard<()>),
    OWG(tk::sync::OwnedRwLockWriteGuard<()>, u64),
}

/// What a body holds; anything left when the body is abandoned (deadlock, stopped execution, panic) is leaked
/// instead of dropped, so that no destructor with a scheduling point runs outside the body's own control flow.
struct HeldList<'a>(Vec<(usize, u64, Held<'a>)>);
impl Drop for HeldList<'_> {
    fn drop(&mut self) {
        while let Some(h) = self.0.pop() {
            std::mem::forget(h);
        }
    }
}
struct NotifiedList<'a>(Vec<Option<Pin<Box<tk::sync::futures::Notified<'a>>>>>);
impl Drop for NotifiedList<'_> {
    fn drop(&mut self) {
        while let Some(h) = self.0.pop() {
            std::mem::forget(h);
        }
    }
}

fn run_body(p: Arc<Prog>, objs: Arc<Objs>, b: usize) -> u64 {
    drive_ready(run_ops(p, objs, b, false));
    1000 + me() as u64
}

fn run_ops(p: Arc<Prog>, objs: Arc<Objs>, b: usize, is_task: bool) -> Pin<Box<dyn Future<Output = u64>>> {
    Box::pin(run_ops_inner(p, objs, b, is_task))
}

fn rc_vals(kind: usize, r: Result<u64, bool>) -> Vec<u64> {
    // Ok(v) -> [kind,0,v]; Err(false) -> empty [kind,1]; Err(true) -> closed / None [kind,2]
    match r {
        Ok(v) => vec![kind as u64, 0, v],
        Err(false) => vec![kind as u64, 1],
        Err(true) => vec![kind as u64, 2],
    }
}

async fn run_ops_inner(p: Arc<Prog>, objs: Arc<Objs>, b: usize, is_task: bool) -> u64 {
    let o: &Objs = &objs;
    let mut thandles: Vec<Option<thread::JoinHandle<u64>>> = Vec::new();
    let mut ttids: Vec<usize> = Vec::new();
    let mut ahandles: Vec<Option<tk::task::JoinHandle<u64>>> = Vec::new();
    let mut held_holder = HeldList(Vec::new());
    let held = &mut held_holder.0;
    let mut nf_holder = NotifiedList(Vec::new());
    let notifieds = &mut nf_holder.0;
    let ops = p.bodies.get(b).cloned().unwrap_or_default();
    let owned = b % 2 == 1;
    macro_rules! misuse {
        () => {{
            log_op(98, &[]);
            continue;
        }};
    }
    macro_rules! obj {
        ($i:expr, $pat:path) => {
            match o.objs.get($i) {
                Some($pat(x)) => x,
                _ => panic!("vharness: wrong object kind"),
            }
        };
    }
    for op in ops {
        LAST_TASK.with(|c| c.set(me()));
        log_op(56, &[]);
        match op {
            Op::SpawnT(j) => {
                let (p2, o2) = (p.clone(), objs.clone());
                let h = thread::spawn(move || run_body(p2, o2, j));
                let tid: usize = h.thread().id().into();
                thandles.push(Some(h));
                ttids.push(tid);
                log_op(50, &[tid as u64]);
            }
            Op::JoinT(h) => {
                let Some(jh) = thandles.get_mut(h).and_then(|x| x.take()) else { misuse!() };
                jh.join().unwrap();
                log_op(51, &[ttids[h] as u64]);
            }
            Op::SpawnA(j) => {
                let (p2, o2) = (p.clone(), objs.clone());
                let h = tk::task::spawn(SendFut(async move { run_ops(p2, o2, j, true).await }));
                let tid = shuttle_engine::runtime::execution::ExecutionState::with(|s| {
                    let mut n = 0usize;
                    while s.try_get(TaskId::from(n)).is_some() {
                        n += 1;
                    }
                    n - 1
                });
                ahandles.push(Some(h));
                log_op(52, &[tid as u64]);
            }
            Op::AwaitA(h) => {
                let Some(jh) = ahandles.get_mut(h).and_then(|x| x.take()) else { misuse!() };
                let r = if is_task { jh.await } else { shuttle::future::block_on(jh) };
                match r {
                    Ok(v) => log_op(53, &[0, v]),
                    Err(_) => log_op(53, &[1]),
                }
            }
            Op::Yield => {
                if is_task {
                    tk::task::yield_now().await;
                } else {
                    thread::yield_now();
                }
                log_op(54, &[]);
            }
            Op::Send(kind, ch, slot, v) => {
                let c = obj!(ch, Obj::Chan);
                // SAFETY: single OS thread; the endpoint is used by this body only
                let txs = unsafe { &*c.txs.get() };
                let Some(tx) = txs.get(slot).and_then(|t| t.as_ref()) else { misuse!() };
                let code: u64 = match (tx, kind) {
                    (TxEnd::B(t), 0) => {
                        let r = if is_task { t.send(v).await } else { shuttle::future::block_on(t.send(v)) };
                        if r.is_ok() { 0 } else { 2 }
                    }
                    (TxEnd::B(t), 1) => {
                        if t.blocking_send(v).is_ok() { 0 } else { 2 }
                    }
                    (TxEnd::B(t), _) => match t.try_send(v) {
                        Ok(()) => 0,
                        Err(mpsc::error::TrySendError::Full(_)) => 1,
                        Err(mpsc::error::TrySendError::Closed(_)) => 2,
                    },
                    (TxEnd::U(t), 1) => {
                        if t.send(v).is_ok() { 0 } else { 2 }
                    }
                    (TxEnd::U(_), _) => misuse!(),
                };
                log_op(60, &[kind as u64, code]);
            }
            Op::Recv(kind, ch) => {
                let c = obj!(ch, Obj::Chan);
                let Some(rx) = (unsafe { &mut *c.rx.get() }).as_mut() else { misuse!() };
                let r: Result<u64, bool> = match (rx, kind) {
                    (RxEnd::B(r), 0) => (if is_task { r.recv().await } else { shuttle::future::block_on(r.recv()) }).ok_or(true),
                    (RxEnd::U(r), 0) => (if is_task { r.recv().await } else { shuttle::future::block_on(r.recv()) }).ok_or(true),
                    (RxEnd::B(r), 1) => r.blocking_recv().ok_or(true),
                    (RxEnd::U(r), 1) => r.blocking_recv().ok_or(true),
                    (RxEnd::B(r), _) => r.try_recv().map_err(|e| e == mpsc::error::TryRecvError::Disconnected),
                    (RxEnd::U(r), _) => r.try_recv().map_err(|e| e == mpsc::error::TryRecvError::Disconnected),
                };
                log_op(61, &rc_vals(kind, r));
            }
            Op::CloseRx(ch) => {
                let c = obj!(ch, Obj::Chan);
                let Some(rx) = (unsafe { &mut *c.rx.get() }).as_mut() else { misuse!() };
                match rx {
                    RxEnd::B(r) => r.close(),
                    RxEnd::U(r) => r.close(),
                }
                log_op(62, &[]);
            }
            Op::DropRx(ch) => {
                let c = obj!(ch, Obj::Chan);
                let Some(rx) = (unsafe { &mut *c.rx.get() }).take() else { misuse!() };
                drop(rx);
                log_op(63, &[]);
            }
            Op::DropTx(ch, slot) => {
                let c = obj!(ch, Obj::Chan);
                let txs = unsafe { &mut *c.txs.get() };
                let Some(tx) = txs.get_mut(slot).and_then(|t| t.take()) else { misuse!() };
                drop(tx);
                log_op(64, &[]);
            }
            Op::ChanInfo(ch) => {
                let c = obj!(ch, Obj::Chan);
                let Some(rx) = (unsafe { &*c.rx.get() }).as_ref() else { misuse!() };
                let txs = unsafe { &*c.txs.get() };
                let (len, closed) = match rx {
                    RxEnd::B(r) => (r.len() as u64, r.is_closed()),
                    RxEnd::U(r) => (r.len() as u64, r.is_closed()),
                };
                let mut vals = vec![len, closed as u64];
                if let Some(TxEnd::B(t)) = txs.iter().flatten().next() {
                    vals.push(t.capacity() as u64);
                }
                let _ = c.bounded;
                log_op(65, &vals);
            }
            Op::Acq(s, n) => {
                let sm = obj!(s, Obj::Sem);
                let r = if owned {
                    let f = sm.clone().acquire_many_owned(n);
                    (if is_task { f.await } else { shuttle::future::block_on(f) }).map(Held::OPermit)
                } else {
                    (if is_task { sm.acquire_many(n).await } else { shuttle::future::block_on(sm.acquire_many(n)) }).map(Held::Permit)
                };
                match r {
                    Ok(pm) => {
                        held.push((s, n as u64, pm));
                        log_op(70, &[1]);
                    }
                    Err(_) => log_op(70, &[0]),
                }
            }
            Op::TryAcq(s, n) => {
                let sm = obj!(s, Obj::Sem);
                let r = if owned { sm.clone().try_acquire_many_owned(n).map(Held::OPermit) } else { sm.try_acquire_many(n).map(Held::Permit) };
                let code = match r {
                    Ok(pm) => {
                        held.push((s, n as u64, pm));
                        0
                    }
                    Err(tk::sync::TryAcquireError::NoPermits) => 1,
                    Err(tk::sync::TryAcquireError::Closed) => 2,
                };
                log_op(71, &[code]);
            }
            Op::Add(s, n) => {
                let sm = obj!(s, Obj::Sem);
                sm.add_permits(n);
                log_op(72, &[]);
            }
            Op::Rel(s) => {
                let Some(idx) = held.iter().rposition(|h| h.0 == s) else { misuse!() };
                let (_, n, h) = held.remove(idx);
                drop(h);
                log_op(73, &[o.base[s] as u64, n]);
            }
            Op::Forget(s) => {
                let Some(idx) = held.iter().rposition(|h| h.0 == s && matches!(h.2, Held::Permit(_) | Held::OPermit(_))) else { misuse!() };
                let (_, n, h) = held.remove(idx);
                match h {
                    Held::Permit(pm) => pm.forget(),
                    Held::OPermit(pm) => pm.forget(),
                    _ => {}
                }
                log_op(74, &[o.base[s] as u64, n]);
            }
            Op::SemClose(s) => {
                let sm = obj!(s, Obj::Sem);
                sm.close();
                log_op(75, &[]);
            }
            Op::SemInfo(s) => {
                let sm = obj!(s, Obj::Sem);
                log_op(76, &[sm.available_permits() as u64, sm.is_closed() as u64]);
            }
            Op::Lock(m) => {
                let mx = obj!(m, Obj::Mutex);
                let g = if owned {
                    let f = mx.clone().lock_owned();
                    Held::OMG(if is_task { f.await } else { shuttle::future::block_on(f) })
                } else {
                    Held::MG(if is_task { mx.lock().await } else { mx.blocking_lock() })
                };
                held.push((m, 1, g));
                log_op(77, &[1]);
            }
            Op::TryLock(m) => {
                let mx = obj!(m, Obj::Mutex);
                let r = if owned { mx.clone().try_lock_owned().map(Held::OMG) } else { mx.try_lock().map(Held::MG) };
                let code = match r {
                    Ok(g) => {
                        held.push((m, 1, g));
                        0
                    }
                    Err(_) => 1,
                };
                log_op(78, &[code]);
            }
            Op::Read(w) => {
                let l = obj!(w, Obj::RwLock);
                let g = if owned {
                    let f = l.clone().read_owned();
                    Held::ORG(if is_task { f.await } else { shuttle::future::block_on(f) })
                } else {
                    Held::RG(if is_task { l.read().await } else { l.blocking_read() })
                };
                held.push((w, 1, g));
                log_op(79, &[1]);
            }
            Op::Write(w) => {
                let l = obj!(w, Obj::RwLock);
                let n = rw_max(&p.obj_specs[w]);
                let g = if owned {
                    let f = l.clone().write_owned();
                    Held::OWG(if is_task { f.await } else { shuttle::future::block_on(f) }, n)
                } else {
                    Held::WG(if is_task { l.write().await } else { l.blocking_write() }, n)
                };
                held.push((w, n, g));
                log_op(86, &[1]);
            }
            Op::TryRead(w) => {
                let l = obj!(w, Obj::RwLock);
                let r = if owned { l.clone().try_read_owned().map(Held::ORG) } else { l.try_read().map(Held::RG) };
                let code = match r {
                    Ok(g) => {
                        held.push((w, 1, g));
                        0
                    }
                    Err(_) => 1,
                };
                log_op(87, &[code]);
            }
            Op::TryWrite(w) => {
                let l = obj!(w, Obj::RwLock);
                let n = rw_max(&p.obj_specs[w]);
                let r = if owned { l.clone().try_write_owned().map(|g| Held::OWG(g, n)) } else { l.try_write().map(|g| Held::WG(g, n)) };
                let code = match r {
                    Ok(g) => {
                        held.push((w, n, g));
                        0
                    }
                    Err(_) => 1,
                };
                log_op(88, &[code]);
            }
            Op::Notified(n) => {
                let nt = obj!(n, Obj::Notify);
                let f = Box::pin(nt.notified());
                // the id of the new waiter is the number of Notified futures created on this Notify so far
                let id = NOTIFIED_COUNT.with(|c| {
                    let mut c = c.borrow_mut();
                    let e = c.entry(n).or_insert(0u64);
                    *e += 1;
                    *e - 1
                });
                notifieds.push(Some(f));
                log_op(80, &[id]);
            }
            Op::Enable(f) => {
                let Some(fut) = notifieds.get_mut(f).and_then(|x| x.as_mut()) else { misuse!() };
                let r = fut.as_mut().enable();
                log_op(81, &[r as u64]);
            }
            Op::AwaitN(f) => {
                let Some(fut) = notifieds.get_mut(f).and_then(|x| x.as_mut()) else { misuse!() };
                if is_task {
                    fut.as_mut().await;
                } else {
                    shuttle::future::block_on(fut.as_mut());
                }
                log_op(82, &[]);
            }
            Op::DropN(f) => {
                let Some(fut) = notifieds.get_mut(f).and_then(|x| x.take()) else { misuse!() };
                drop(fut);
                log_op(83, &[]);
            }
            Op::NotifyOne(n) => {
                let nt = obj!(n, Obj::Notify);
                nt.notify_one();
                log_op(84, &[]);
            }
            Op::NotifyAll(n) => {
                let nt = obj!(n, Obj::Notify);
                nt.notify_waiters();
                log_op(85, &[]);
            }
            Op::OsSend(ob, v) => {
                let c = obj!(ob, Obj::Oneshot);
                let Some(tx) = (unsafe { &mut *c.tx.get() }).take() else { misuse!() };
                let r = tx.send(v);
                log_op(90, &[r.is_ok() as u64]);
            }
            Op::OsRecv(kind, ob) => {
                let c = obj!(ob, Obj::Oneshot);
                let Some(rx) = (unsafe { &mut *c.rx.get() }).as_mut() else { misuse!() };
                let r: Result<u64, bool> = if kind == 0 {
                    let mut pinned = Pin::new(rx);
                    (if is_task { pinned.as_mut().await } else { shuttle::future::block_on(pinned.as_mut()) }).map_err(|_| true)
                } else {
                    rx.try_recv().map_err(|e| e == oneshot::error::TryRecvError::Closed)
                };
                log_op(91, &rc_vals(kind, r));
            }
            Op::OsClose(ob) => {
                let c = obj!(ob, Obj::Oneshot);
                let Some(rx) = (unsafe { &mut *c.rx.get() }).as_mut() else { misuse!() };
                rx.close();
                log_op(92, &[]);
            }
            Op::OsDropTx(ob) => {
                let c = obj!(ob, Obj::Oneshot);
                let Some(tx) = (unsafe { &mut *c.tx.get() }).take() else { misuse!() };
                drop(tx);
                log_op(93, &[]);
            }
            Op::OsDropRx(ob) => {
                let c = obj!(ob, Obj::Oneshot);
                let Some(rx) = (unsafe { &mut *c.rx.get() }).take() else { misuse!() };
                drop(rx);
                log_op(94, &[]);
            }
            Op::WSend(ob, slot, v) => {
                let c = obj!(ob, Obj::Watch);
                let Some(tx) = (unsafe { &*c.txs.get() }).get(slot).and_then(|t| t.as_ref()) else { misuse!() };
                let r = tx.send(v);
                log_op(100, &[r.is_ok() as u64]);
            }
            Op::WModify(ob, slot, v, m) => {
                let c = obj!(ob, Obj::Watch);
                let Some(tx) = (unsafe { &*c.txs.get() }).get(slot).and_then(|t| t.as_ref()) else { misuse!() };
                // half of the unconditional modifications go through send_modify
                let r = if m && v % 2 == 0 {
                    tx.send_modify(|x| *x = v);
                    true
                } else {
                    tx.send_if_modified(|x| {
                        if m {
                            *x = v;
                        }
                        m
                    })
                };
                log_op(101, &[r as u64]);
            }
            Op::WReplace(ob, slot, v) => {
                let c = obj!(ob, Obj::Watch);
                let Some(tx) = (unsafe { &*c.txs.get() }).get(slot).and_then(|t| t.as_ref()) else { misuse!() };
                let old = tx.send_replace(v);
                log_op(102, &[old]);
            }
            Op::WBorrow(ob, slot) => {
                let c = obj!(ob, Obj::Watch);
                let Some(rx) = (unsafe { &*c.rxs.get() }).get(slot).and_then(|t| t.as_ref()) else { misuse!() };
                let v = *rx.borrow();
                log_op(103, &[v]);
            }
            Op::WBorrowUpd(ob, slot) => {
                let c = obj!(ob, Obj::Watch);
                let Some(rx) = (unsafe { &mut *c.rxs.get() }).get_mut(slot).and_then(|t| t.as_mut()) else { misuse!() };
                let v = *rx.borrow_and_update();
                log_op(104, &[v]);
            }
            Op::WHasChanged(ob, slot) => {
                let c = obj!(ob, Obj::Watch);
                let Some(rx) = (unsafe { &*c.rxs.get() }).get(slot).and_then(|t| t.as_ref()) else { misuse!() };
                let code = match rx.has_changed() {
                    Ok(false) => 0,
                    Ok(true) => 1,
                    Err(_) => 2,
                };
                log_op(105, &[code]);
            }
            Op::WChanged(ob, slot) => {
                let c = obj!(ob, Obj::Watch);
                let Some(rx) = (unsafe { &mut *c.rxs.get() }).get_mut(slot).and_then(|t| t.as_mut()) else { misuse!() };
                let r = if is_task { rx.changed().await } else { shuttle::future::block_on(rx.changed()) };
                log_op(106, &[r.is_ok() as u64]);
            }
            Op::WWaitFor(ob, slot, target) => {
                let c = obj!(ob, Obj::Watch);
                let Some(rx) = (unsafe { &mut *c.rxs.get() }).get_mut(slot).and_then(|t| t.as_mut()) else { misuse!() };
                let r = if is_task {
                    rx.wait_for(|x| *x >= target).await.map(|r| *r)
                } else {
                    shuttle::future::block_on(rx.wait_for(|x| *x >= target)).map(|r| *r)
                };
                match r {
                    Ok(v) => log_op(107, &[1, v]),
                    Err(_) => log_op(107, &[0]),
                }
            }
            Op::WDropTx(ob, slot) => {
                let c = obj!(ob, Obj::Watch);
                let Some(tx) = (unsafe { &mut *c.txs.get() }).get_mut(slot).and_then(|t| t.take()) else { misuse!() };
                drop(tx);
                log_op(108, &[]);
            }
            Op::WDropRx(ob, slot) => {
                let c = obj!(ob, Obj::Watch);
                let Some(rx) = (unsafe { &mut *c.rxs.get() }).get_mut(slot).and_then(|t| t.take()) else { misuse!() };
                drop(rx);
                log_op(109, &[]);
            }
            Op::WSubscribe(ob, slot, rslot) => {
                let c = obj!(ob, Obj::Watch);
                let Some(tx) = (unsafe { &*c.txs.get() }).get(slot).and_then(|t| t.as_ref()) else { misuse!() };
                let rxs = unsafe { &mut *c.rxs.get() };
                if rslot >= 3 || rxs[rslot].is_some() {
                    misuse!()
                }
                rxs[rslot] = Some(tx.subscribe());
                log_op(110, &[]);
            }
            Op::WClosed(ob, slot) => {
                let c = obj!(ob, Obj::Watch);
                let Some(tx) = (unsafe { &*c.txs.get() }).get(slot).and_then(|t| t.as_ref()) else { misuse!() };
                if is_task {
                    tx.closed().await;
                } else {
                    shuttle::future::block_on(tx.closed());
                }
                log_op(111, &[]);
            }
            Op::Downgrade(w) => {
                let n = rw_max(&p.obj_specs[w]);
                let Some(idx) = held.iter().rposition(|h| h.0 == w) else { misuse!() };
                if !matches!(held[idx].2, Held::WG(..) | Held::OWG(..)) || n <= 1 {
                    misuse!()
                }
                let (_, _, h) = held.remove(idx);
                match h {
                    Held::WG(g, _) => held.push((w, 1, Held::RG(g.downgrade()))),
                    Held::OWG(g, _) => held.push((w, 1, Held::ORG(g.downgrade()))),
                    _ => {}
                }
                log_op(113, &[]);
            }
            Op::Merge(s) => {
                if !matches!(o.objs.get(s), Some(Obj::Sem(_))) {
                    misuse!()
                }
                let Some(i1) = held.iter().rposition(|h| h.0 == s) else { misuse!() };
                let Some(i2) = held[..i1].iter().rposition(|h| h.0 == s) else { misuse!() };
                let (_, n1, h1) = held.remove(i1);
                let (_, n2, h2) = held.remove(i2);
                match (h1, h2) {
                    (Held::Permit(p1), Held::Permit(mut p2)) => {
                        p2.merge(p1);
                        assert_eq!(p2.num_permits() as u64, n1 + n2, "vharness: num_permits after merge");
                        held.push((s, n1 + n2, Held::Permit(p2)));
                    }
                    (Held::OPermit(p1), Held::OPermit(mut p2)) => {
                        p2.merge(p1);
                        assert_eq!(p2.num_permits() as u64, n1 + n2, "vharness: num_permits after merge");
                        held.push((s, n1 + n2, Held::OPermit(p2)));
                    }
                    _ => panic!("vharness: permits of two kinds in one body"),
                }
                log_op(114, &[n1 + n2]);
            }
            Op::Split(s, n) => {
                if !matches!(o.objs.get(s), Some(Obj::Sem(_))) {
                    misuse!()
                }
                let Some(idx) = held.iter().rposition(|h| h.0 == s) else { misuse!() };
                let mut newp = None;
                match &mut held[idx] {
                    (_, k, Held::Permit(pm)) => {
                        if let Some(p2) = pm.split(n) {
                            *k -= n as u64;
                            assert_eq!(pm.num_permits() as u64, *k, "vharness: num_permits after split");
                            newp = Some(Held::Permit(p2));
                        }
                    }
                    (_, k, Held::OPermit(pm)) => {
                        if let Some(p2) = pm.split(n) {
                            *k -= n as u64;
                            assert_eq!(pm.num_permits() as u64, *k, "vharness: num_permits after split");
                            newp = Some(Held::OPermit(p2));
                        }
                    }
                    _ => {}
                }
                match newp {
                    Some(p2) => {
                        held.push((s, n as u64, p2));
                        log_op(115, &[1]);
                    }
                    None => log_op(115, &[0]),
                }
            }
            Op::OcSet(x, v) => {
                let c = obj!(x, Obj::OnceCell);
                // SetError is not nameable from outside the crate: its two variants are told apart by the methods
                let code = match c.set(v) {
                    Ok(()) => 0,
                    Err(e) if e.is_already_init_err() => 1,
                    Err(e) if e.is_initializing_err() => 2,
                    Err(_) => 9,
                };
                log_op(117, &[code]);
            }
            Op::OcGet(x) => {
                let c = obj!(x, Obj::OnceCell);
                match c.get() {
                    Some(v) => log_op(118, &[1, *v]),
                    None => log_op(118, &[0]),
                }
            }
            Op::OcInit(x, v, y, ok) => {
                let c = obj!(x, Obj::OnceCell);
                let init = || async move {
                    for _ in 0..y {
                        if is_task {
                            tk::task::yield_now().await;
                        } else {
                            thread::yield_now();
                        }
                    }
                    v
                };
                if ok {
                    let f = c.get_or_init(init);
                    let r = *(if is_task { f.await } else { shuttle::future::block_on(f) });
                    log_op(119, &[1, r]);
                } else {
                    let f = c.get_or_try_init(|| async move {
                        let v = init().await;
                        if v == u64::MAX { Ok(v) } else { Err(()) }
                    });
                    match if is_task { f.await } else { shuttle::future::block_on(f) } {
                        Ok(r) => log_op(119, &[1, *r]),
                        Err(()) => log_op(119, &[0]),
                    }
                }
            }
            Op::OsIsClosed(ob) => {
                let c = obj!(ob, Obj::Oneshot);
                let Some(tx) = (unsafe { &*c.tx.get() }).as_ref() else { misuse!() };
                log_op(116, &[tx.is_closed() as u64]);
            }
            Op::WInfo(ob, slot) => {
                let c = obj!(ob, Obj::Watch);
                let Some(tx) = (unsafe { &*c.txs.get() }).get(slot).and_then(|t| t.as_ref()) else { misuse!() };
                log_op(112, &[tx.is_closed() as u64, tx.receiver_count() as u64]);
            }
        }
    }
    log_op(55, &[]);
    // permits and guards still held are dropped newest first
    while let Some((s, n, h)) = held.pop() {
        drop(h);
        log_op(73, &[o.base[s] as u64, n]);
    }
    // then the Notified futures, newest first
    while let Some(f) = notifieds.pop() {
        drop(f);
    }
    // JoinHandles of spawned futures still owned are dropped (detached) last
    for h in ahandles.iter_mut() {
        drop(h.take());
    }
    b as u64
}

thread_local! {
    static NOTIFIED_COUNT: RefCell<std::collections::HashMap<usize, u64>> = RefCell::new(Default::default());
}

fn rw_max(spec: &str) -> u64 {
    if spec.len() == 1 {
        (usize::MAX >> 3) as u64
    } else {
        spec[1..].parse().unwrap()
    }
}

fn classify(payload: Box<dyn std::any::Any + Send>) -> String {
    let msg = if let Some(s) = payload.downcast_ref::<String>() {
        s.clone()
    } else if let Some(s) = payload.downcast_ref::<&str>() {
        s.to_string()
    } else {
        "<non-string payload>".to_string()
    };
    if msg.starts_with("deadlock! blocked tasks:") {
        let mut ids = Vec::new();
        let mut rest = msg.as_str();
        while let Some(i) = rest.find("(task ") {
            rest = &rest[i + 6..];
            let open = rest.find('(').unwrap_or(0);
            rest = &rest[open + 1..];
            let end = rest.find(|c: char| !c.is_ascii_digit()).unwrap_or(rest.len());
            ids.push(rest[..end].to_string());
        }
        format!("deadlock:[{}]", ids.join(","))
    } else if msg.starts_with("exceeded max_steps bound") {
        "stepbound".to_string()
    } else if msg.starts_with("no task was scheduled") {
        "schedbug".to_string()
    } else if msg.starts_with("vharness:") {
        format!("harness:{}", msg.replace(' ', "_"))
    } else {
        let last = LOG.with(|l| {
            l.borrow()
                .iter()
                .rev()
                .find(|e| e.starts_with('D'))
                .and_then(|e| e.rsplit('>').next().map(|x| x.to_string()))
        });
        format!("panic:{}", last.unwrap_or_else(|| LAST_TASK.with(|c| c.get()).to_string()))
    }
}

fn parse_prog(objs: &str, bodies: &str) -> Result<Arc<Prog>, String> {
    let mut bs = Vec::new();
    for b in bodies.split('|') {
        let mut ops = Vec::new();
        for w in crate::split_list(b, ';') {
            ops.push(parse_op(w)?);
        }
        bs.push(ops);
    }
    let specs: Vec<String> = crate::split_list(objs, ',').iter().map(|s| s.to_string()).collect();
    // validate the object specs once, outside the execution
    for w in &specs {
        if w.is_empty() || !matches!(w.as_bytes()[0], b'c' | b's' | b'm' | b'w' | b'n' | b'o' | b'h' | b'x') {
            return Err(format!("bad object {w}"));
        }
    }
    Ok(Arc::new(Prog { bodies: bs, obj_specs: specs }))
}

fn show_schedule(recorded: &Schedule) -> String {
    recorded
        .steps
        .iter()
        .map(|s| match s {
            ScheduleStep::Task(t) => format!("t{}", usize::from(*t)),
            ScheduleStep::Random => "r".to_string(),
        })
        .collect::<Vec<_>>()
        .join(",")
}

fn body_main(p: Arc<Prog>) {
    NOTIFIED_COUNT.with(|c| c.borrow_mut().clear());
    let objs = Arc::new(make_objs(&p.obj_specs).unwrap_or_else(|e| panic!("vharness: {e}")));
    run_body(p, objs, 0);
}

/// tokdfs <allow_random 0|1> <maxiter> <objs> <bodies>
fn run_dfs(words: &[&str]) -> String {
    let [_, allow, mi, objs, bodies] = words else {
        return "ERR bad case".to_string();
    };
    let prog = match parse_prog(objs, bodies) {
        Ok(p) => p,
        Err(e) => return format!("ERR {e}"),
    };
    let mut config = Config::new();
    config.failure_persistence = FailurePersistence::None;
    let sched = shuttle_schedulers::DfsScheduler::new(Some(mi.parse().unwrap_or(1000)), *allow == "1");
    LOG.with(|l| l.borrow_mut().clear());
    let res = catch_unwind(AssertUnwindSafe(|| {
        Runner::new(sched, config).run(move || body_main(prog.clone()))
    }));
    match res {
        Ok(n) => format!("T=ok N={}", n),
        Err(p) => {
            let msg = p.downcast_ref::<String>().cloned().or_else(|| p.downcast_ref::<&str>().map(|s| s.to_string())).unwrap_or_default();
            let short: String = msg.replace([' ', '\n'], "_").chars().take(90).collect();
            format!("T={} MSG={}", classify(Box::new(msg)), short)
        }
    }
}

// ---------------- sub-waker probe ----------------
/// A combinator in the style of FuturesUnordered / JoinSet: it polls its child with a waker of its own and polls it again
/// only after that waker has fired.  A leaf future that wakes anything but the waker it was polled with leaves the gate
/// pending for ever.
struct SubWake {
    fired: std::sync::atomic::AtomicBool,
    outer: std::sync::Mutex<Option<std::task::Waker>>,
}
impl std::task::Wake for SubWake {
    fn wake(self: Arc<Self>) {
        self.wake_by_ref()
    }
    fn wake_by_ref(self: &Arc<Self>) {
        self.fired.store(true, std::sync::atomic::Ordering::SeqCst);
        let w = self.outer.lock().unwrap().clone();
        if let Some(w) = w {
            w.wake_by_ref();
        }
    }
}
struct Gate<F> {
    child: Pin<Box<F>>,
    sub: Arc<SubWake>,
    polled: bool,
}
impl<F: Future> Future for Gate<F> {
    type Output = F::Output;
    fn poll(mut self: Pin<&mut Self>, cx: &mut std::task::Context<'_>) -> std::task::Poll<F::Output> {
        *self.sub.outer.lock().unwrap() = Some(cx.waker().clone());
        if !self.polled || self.sub.fired.swap(false, std::sync::atomic::Ordering::SeqCst) {
            self.polled = true;
            let w = std::task::Waker::from(self.sub.clone());
            let mut c2 = std::task::Context::from_waker(&w);
            self.child.as_mut().poll(&mut c2)
        } else {
            std::task::Poll::Pending
        }
    }
}
fn gate<F: Future>(f: F) -> Gate<F> {
    Gate {
        child: Box::pin(f),
        sub: Arc::new(SubWake { fired: std::sync::atomic::AtomicBool::new(false), outer: std::sync::Mutex::new(None) }),
        polled: false,
    }
}

/// tokprobe subwaker <k>: leaf future number k awaited through the gate by a spawned task while the main thread produces
/// the event it waits for; explored with the DFS scheduler (random data allowed).  k: 0 shuttle::future::yield_now,
/// 1 a JoinHandle, 2 tokio oneshot receiver, 3 tokio Notified, 4 tokio watch changed(), 5 tokio::task::yield_now
fn run_subwaker(k: &str) -> String {
    let k: usize = k.parse().unwrap_or(99);
    let mut config = Config::new();
    config.failure_persistence = FailurePersistence::None;
    let sched = shuttle_schedulers::DfsScheduler::new(Some(3000), true);
    let res = catch_unwind(AssertUnwindSafe(|| {
        Runner::new(sched, config).run(move || match k {
            0 => {
                let a = shuttle::future::spawn(SendFut(gate(shuttle::future::yield_now())));
                shuttle::future::block_on(a).unwrap();
            }
            1 => {
                let w = shuttle::future::spawn(async {
                    shuttle::future::yield_now().await;
                    7u64
                });
                let a = shuttle::future::spawn(SendFut(gate(w)));
                assert_eq!(shuttle::future::block_on(a).unwrap().unwrap(), 7);
            }
            2 => {
                let (tx, rx) = oneshot::channel::<u64>();
                let a = shuttle::future::spawn(SendFut(gate(rx)));
                thread::yield_now();
                tx.send(5).unwrap();
                assert_eq!(shuttle::future::block_on(a).unwrap().unwrap(), 5);
            }
            3 => {
                let n = Arc::new(tk::sync::Notify::new());
                let n2 = n.clone();
                let a = shuttle::future::spawn(SendFut(gate(async move { n2.notified().await })));
                thread::yield_now();
                n.notify_one();
                shuttle::future::block_on(a).unwrap();
            }
            4 => {
                let (tx, mut rx) = watch::channel(0u64);
                let a = shuttle::future::spawn(SendFut(gate(async move { rx.changed().await.is_ok() })));
                thread::yield_now();
                tx.send(1).unwrap();
                assert!(shuttle::future::block_on(a).unwrap());
            }
            _ => {
                let a = shuttle::future::spawn(SendFut(gate(tk::task::yield_now())));
                shuttle::future::block_on(a).unwrap();
            }
        })
    }));
    match res {
        Ok(n) => format!("PROBE OK N={}", n),
        Err(p) => format!("PROBE FAIL {}", classify(p)),
    }
}

pub fn run(words: &[&str]) -> String {
    if words.first() == Some(&"tokprobe") {
        return match words {
            [_, what, k] if *what == "subwaker" => run_subwaker(k),
            _ => "ERR bad probe".to_string(),
        };
    }
    if words.first() == Some(&"tokdfs") {
        return run_dfs(words);
    }
    let [_, ms, script, rseed, objs, bodies] = words else {
        return "ERR bad case".to_string();
    };
    let mut config = Config::new();
    config.failure_persistence = FailurePersistence::None;
    config.max_steps = match ms.split(':').collect::<Vec<_>>()[..] {
        ["none"] => MaxSteps::None,
        ["fail", n] => MaxSteps::FailAfter(n.parse().unwrap()),
        ["cont", n] => MaxSteps::ContinueAfter(n.parse().unwrap()),
        _ => return "ERR bad max_steps".to_string(),
    };
    let script: Vec<Option<usize>> = crate::split_list(script, ',')
        .iter()
        .map(|w| if *w == "x" { None } else { Some(w.parse().unwrap()) })
        .collect();
    let prog = match parse_prog(objs, bodies) {
        Ok(p) => p,
        Err(e) => return format!("ERR {e}"),
    };
    let sched = Scripted { script, pos: 0, rnd: rseed.parse().unwrap(), started: false };
    LOG.with(|l| l.borrow_mut().clear());
    LAST_TASK.with(|c| c.set(0));
    let p2 = prog.clone();
    let res = catch_unwind(AssertUnwindSafe(|| {
        Runner::new(sched, config).run(move || body_main(p2.clone()))
    }));
    let recorded = CurrentSchedule::get_schedule();
    let term = match res {
        Ok(_) => "ok".to_string(),
        Err(p) => classify(p),
    };
    let mut out = LOG.with(|l| l.borrow().join(" "));
    if !out.is_empty() {
        out.push(' ');
    }
    format!("{}T={} S={}", out, term, show_schedule(&recorded))
}
