//! clock layer: op sequences on the real VectorClock (formats as in ocaml/l_clock.ml)
use shuttle_engine::runtime::task::clock::VectorClock;
use shuttle_engine::scheduler::TaskId;
use std::panic::{catch_unwind, AssertUnwindSafe};

fn show(c: &VectorClock) -> String {
    format!("[{}]", c.iter().map(|x| x.to_string()).collect::<Vec<_>>().join("."))
}

pub fn run(words: &[&str]) -> String {
    let [_, ops] = words else { return "ERR bad case".to_string() };
    let mut regs: Vec<VectorClock> = (0..4).map(|_| VectorClock::new()).collect();
    let mut out = Vec::new();
    for w in crate::split_list(ops, ';') {
        let args: Vec<usize> = w[1..].split('.').map(|x| x.parse().unwrap()).collect();
        let kind = w.as_bytes()[0];
        let r = catch_unwind(AssertUnwindSafe(|| match kind {
            b'n' => {
                regs[args[0]] = VectorClock::new();
                show(&regs[args[0]])
            }
            b'e' => {
                regs[args[0]].extend(TaskId::from(args[1]));
                show(&regs[args[0]])
            }
            b'i' => {
                regs[args[0]].increment(TaskId::from(args[1]));
                show(&regs[args[0]])
            }
            b'u' => {
                let other = regs[args[1]].clone();
                regs[args[0]].update(&other);
                show(&regs[args[0]])
            }
            b'p' => match regs[args[0]].partial_cmp(&regs[args[1]]) {
                Some(std::cmp::Ordering::Less) => "L".to_string(),
                Some(std::cmp::Ordering::Equal) => "E".to_string(),
                Some(std::cmp::Ordering::Greater) => "G".to_string(),
                None => "N".to_string(),
            },
            b'g' => regs[args[0]].get(args[1]).to_string(),
            _ => "ERR".to_string(),
        }));
        out.push(r.unwrap_or_else(|_| "C".to_string()));
    }
    out.join(" ")
}
