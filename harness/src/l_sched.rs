//! sched layer: drives the real built-in schedulers directly with fabricated `Task` values
//! (formats as in ocaml/l_sched.ml).
use shuttle_engine::runtime::task::clock::VectorClock;
use shuttle_engine::runtime::task::TaskSignature;
use shuttle_engine::runtime::thread::continuation::{ContinuationPool, CONTINUATION_POOL};
use shuttle_engine::scheduler::{Scheduler, Task, TaskId};
use shuttle_schedulers::{DfsScheduler, PctScheduler, RandomScheduler};
use std::panic::{catch_unwind, AssertUnwindSafe, Location};

pub fn make_tasks(n: usize) -> Vec<Task> {
    (0..n)
        .map(|i| {
            let zeros = vec![0u32; i + 1];
            Task::from_closure(
                Box::new(|| {}),
                0x8000,
                TaskId::from(i),
                None,
                VectorClock::from(&zeros[..]),
                None,
                0,
                None,
                None,
                TaskSignature::new_parentless(Location::caller()),
            )
        })
        .collect()
}

struct Tree {
    kids: Vec<(usize, Tree)>,
}

fn parse_tree(s: &[u8], pos: &mut usize) -> Tree {
    assert_eq!(s[*pos], b'[');
    *pos += 1;
    let mut kids = Vec::new();
    while s[*pos] != b']' {
        let st = *pos;
        while s[*pos].is_ascii_digit() {
            *pos += 1;
        }
        let id: usize = std::str::from_utf8(&s[st..*pos]).unwrap().parse().unwrap();
        let sub = parse_tree(s, pos);
        kids.push((id, sub));
    }
    *pos += 1;
    Tree { kids }
}

fn max_id(t: &Tree) -> usize {
    t.kids.iter().map(|(i, s)| (*i).max(max_id(s))).max().unwrap_or(0)
}

fn opt(s: &str) -> Option<usize> {
    if s == "-" {
        None
    } else {
        Some(s.parse().unwrap())
    }
}

fn run_dfs(mi: &str, bound: &str, tree: &str) -> String {
    let mut pos = 0;
    let tree = parse_tree(tree.as_bytes(), &mut pos);
    let bound = opt(bound);
    let tasks = make_tasks(max_id(&tree) + 1);
    let mut sched = DfsScheduler::new(opt(mi), false);
    let mut paths: Vec<String> = Vec::new();
    let mut iters = 0usize;
    while sched.new_execution().is_some() {
        iters += 1;
        if iters > 200000 {
            return "FUEL".to_string();
        }
        let mut node = &tree;
        let mut path: Vec<String> = Vec::new();
        let mut cur: Option<TaskId> = None;
        // the runtime consults the scheduler only while the step bound is not reached and a task is runnable
        while !node.kids.is_empty() && bound.map(|b| path.len() < b).unwrap_or(true) {
            let refs: Vec<&Task> = node.kids.iter().map(|(i, _)| &tasks[*i]).collect();
            let choice = match sched.next_task(&refs, cur, false) {
                Some(c) => c,
                None => return "BAD".to_string(),
            };
            let c: usize = choice.into();
            match node.kids.iter().find(|(i, _)| *i == c) {
                Some((_, sub)) => {
                    node = sub;
                    path.push(c.to_string());
                    cur = Some(choice);
                }
                None => return "BAD".to_string(),
            }
        }
        paths.push(if path.is_empty() { "e".to_string() } else { path.join(".") });
    }
    format!("P {}", paths.join("|"))
}

fn run_random(seed: &str, iters: &str, calls: &str) -> String {
    let mut sched = RandomScheduler::new_from_seed(seed.parse().unwrap(), iters.parse().unwrap());
    let tasks = make_tasks(64);
    let mut out: Vec<String> = Vec::new();
    for c in crate::split_list(calls, ',') {
        if c == "E" {
            out.push(match sched.new_execution() {
                None => "eN".to_string(),
                Some(s) => format!("e{}", s.seed),
            });
        } else if c == "U" {
            out.push(format!("u{}", sched.next_u64()));
        } else {
            let ids: Vec<usize> = if c.as_bytes().get(1) == Some(&b':') {
                c[2..].split('.').map(|x| x.parse().unwrap()).collect()
            } else {
                (0..c[1..].parse::<usize>().unwrap()).collect()
            };
            let refs: Vec<&Task> = ids.iter().map(|i| &tasks[*i]).collect();
            // T: no current task; C: the first offered task is the current one; Y: it is the current one and has just yielded
            let (cur, yielding) = match c.as_bytes()[0] {
                b'Y' => (ids.first().map(|i| TaskId::from(*i)), true),
                b'C' => (ids.first().map(|i| TaskId::from(*i)), false),
                _ => (None, false),
            };
            match sched.next_task(&refs, cur, yielding) {
                Some(t) => out.push(format!("t{}", usize::from(t))),
                None => out.push("x".to_string()),
            }
        }
    }
    out.join(",")
}

/// pct <seed> <depth> <iters> <calls>; calls: E | U | T:<ids>:<current|->:<yielding 0|1>.  A call that panics prints P
/// and ends the case (the scheduler is not used after a panic).
fn run_pct(seed: &str, depth: &str, iters: &str, calls: &str) -> String {
    let made = catch_unwind(AssertUnwindSafe(|| {
        PctScheduler::new_from_seed(seed.parse().unwrap(), depth.parse().unwrap(), iters.parse().unwrap())
    }));
    let Ok(mut sched) = made else { return "P".to_string() };
    let tasks = make_tasks(64);
    let mut out: Vec<String> = Vec::new();
    let mut prev: Option<usize> = None;
    for c in crate::split_list(calls, ',') {
        if c == "E" {
            prev = None;
        }
        let r = catch_unwind(AssertUnwindSafe(|| {
            if c == "E" {
                match sched.new_execution() {
                    None => "eN".to_string(),
                    Some(s) => format!("e{}", s.seed),
                }
            } else if c == "U" {
                format!("u{}", sched.next_u64())
            } else {
                let f: Vec<&str> = c.split(':').collect();
                let ids: Vec<usize> = f[1].split('.').map(|x| x.parse().unwrap()).collect();
                // `c` = the task chosen by the previous decision of this execution
                let cur = match f[2] {
                    "-" => None,
                    "c" => prev.map(TaskId::from),
                    x => Some(TaskId::from(x.parse::<usize>().unwrap())),
                };
                let refs: Vec<&Task> = ids.iter().map(|i| &tasks[*i]).collect();
                match sched.next_task(&refs, cur, f[3] == "1") {
                    Some(t) => format!("t{}", usize::from(t)),
                    None => "x".to_string(),
                }
            }
        }));
        match r {
            Ok(s) => {
                if let Some(t) = s.strip_prefix('t') {
                    prev = t.parse().ok();
                }
                out.push(s)
            }
            Err(_) => {
                out.push("P".to_string());
                break;
            }
        }
    }
    out.join(",")
}

fn make_task_with_clock(id: usize, clock: &[u32]) -> Task {
    Task::from_closure(
        Box::new(|| {}),
        0x8000,
        TaskId::from(id),
        None,
        VectorClock::from(clock),
        None,
        0,
        None,
        None,
        TaskSignature::new_parentless(Location::caller()),
    )
}

/// rtarget <seed> <target a.b.c | -> <allow_incomplete 0|1> <steps t3,r,t2 | -> <calls>
/// calls: E | U | T:<id>@<a.b.c>/<id>@<a.b>; the ReplayScheduler is built from a Schedule value, given the target clock
/// through set_target_clock, and driven directly.  A call that panics prints P and ends the case.
fn run_rtarget(seed: &str, target: &str, allow: &str, steps: &str, calls: &str) -> String {
    use shuttle_engine::scheduler::Schedule;
    let mut schedule = Schedule::new(seed.parse().unwrap());
    if steps != "-" {
        for w in steps.split(',') {
            if w == "r" {
                schedule.push_random();
            } else {
                schedule.push_task(TaskId::from(w[1..].parse::<usize>().unwrap()));
            }
        }
    }
    let mut sched = shuttle_schedulers::ReplayScheduler::new_from_schedule(schedule);
    if target != "-" {
        let clk: Vec<u32> = target.split('.').map(|x| x.parse().unwrap()).collect();
        sched.set_target_clock(&clk[..]);
    }
    if allow == "1" {
        sched.set_allow_incomplete();
    }
    let mut out: Vec<String> = Vec::new();
    for c in calls.split(',') {
        let r = catch_unwind(AssertUnwindSafe(|| {
            if c == "E" {
                match sched.new_execution() {
                    None => "eN".to_string(),
                    Some(s) => format!("e{}", s.seed),
                }
            } else if c == "U" {
                format!("u{}", sched.next_u64())
            } else {
                let tasks: Vec<Task> = c[2..]
                    .split('/')
                    .map(|w| {
                        let (i, clk) = w.split_once('@').unwrap();
                        let clk: Vec<u32> = clk.split('.').map(|x| x.parse().unwrap()).collect();
                        make_task_with_clock(i.parse().unwrap(), &clk)
                    })
                    .collect();
                let refs: Vec<&Task> = tasks.iter().collect();
                match sched.next_task(&refs, None, false) {
                    Some(t) => format!("t{}", usize::from(t)),
                    None => "x".to_string(),
                }
            }
        }));
        match r {
            Ok(s) => out.push(s),
            Err(_) => {
                out.push("P".to_string());
                break;
            }
        }
    }
    out.join(",")
}

#[track_caller]
fn here() -> &'static Location<'static> {
    Location::caller()
}

/// urw <seed> <iters> <tasks id:parent|-:loc:sig:psig,...> <calls E | U | T:<id.id.id>>
/// Every E rebuilds the tasks in id order (signatures come from TaskSignature::new_parentless / new_child at three call
/// sites, so a task has the same signature in every execution); the sig / psig fields of the case are the model's keys.
fn run_urw(seed: &str, iters: &str, tasks: &str, calls: &str) -> String {
    let locs = [here(), here(), here()];
    // (parent, loc)
    let spec: Vec<(Option<usize>, usize)> = tasks
        .split(',')
        .map(|w| {
            let f: Vec<&str> = w.split(':').collect();
            (if f[1] == "-" { None } else { Some(f[1].parse().unwrap()) }, f[2].parse::<usize>().unwrap() % 3)
        })
        .collect();
    let build = || -> Vec<Task> {
        let mut sigs: Vec<TaskSignature> = Vec::new();
        for (par, loc) in spec.iter() {
            let s = match par {
                None => TaskSignature::new_parentless(locs[*loc]),
                Some(p) => sigs[*p].new_child(locs[*loc]),
            };
            sigs.push(s);
        }
        sigs.into_iter()
            .enumerate()
            .map(|(i, s)| {
                let zeros = vec![0u32; i + 1];
                Task::from_closure(
                    Box::new(|| {}),
                    0x8000,
                    TaskId::from(i),
                    None,
                    VectorClock::from(&zeros[..]),
                    None,
                    0,
                    None,
                    spec[i].0.map(TaskId::from),
                    s,
                )
            })
            .collect()
    };
    let mut sched = shuttle_schedulers::UrwRandomScheduler::new_from_seed(seed.parse().unwrap(), iters.parse().unwrap());
    let mut tasks_now: Vec<Task> = build();
    let mut out: Vec<String> = Vec::new();
    for c in calls.split(',') {
        let r = catch_unwind(AssertUnwindSafe(|| {
            if c == "E" {
                tasks_now = build();
                match sched.new_execution() {
                    None => "eN".to_string(),
                    Some(s) => format!("e{}", s.seed),
                }
            } else if c == "U" {
                format!("u{}", sched.next_u64())
            } else {
                let refs: Vec<&Task> = c[2..].split('.').map(|x| &tasks_now[x.parse::<usize>().unwrap()]).collect();
                match sched.next_task(&refs, None, false) {
                    Some(t) => format!("t{}", usize::from(t)),
                    None => "x".to_string(),
                }
            }
        }));
        match r {
            Ok(s) => {
                let stop = s == "eN";
                out.push(s);
                if stop {
                    break;
                }
            }
            Err(_) => {
                out.push("P".to_string());
                break;
            }
        }
    }
    out.join(",")
}

pub fn run(words: &[&str]) -> String {
    let words: Vec<String> = words.iter().map(|s| s.to_string()).collect();
    let res = catch_unwind(AssertUnwindSafe(|| {
        CONTINUATION_POOL.set(&ContinuationPool::new(), || match &words[..] {
            [k, mi, bound, tree] if k == "dfs" => run_dfs(mi, bound, tree),
            [k, seed, iters, calls] if k == "random" => run_random(seed, iters, calls),
            // randomenv <env seed> <seed> <iters> <calls>: the same with SHUTTLE_RANDOM_SEED set while the scheduler is built
            // (the documented way of re-running a reported failing seed)
            [k, env, seed, iters, calls] if k == "randomenv" => {
                std::env::set_var("SHUTTLE_RANDOM_SEED", env);
                let r = run_random(seed, iters, calls);
                std::env::remove_var("SHUTTLE_RANDOM_SEED");
                r
            }
            [k, seed, depth, iters, calls] if k == "pct" => run_pct(seed, depth, iters, calls),
            [k, seed, target, allow, steps, calls] if k == "rtarget" => run_rtarget(seed, target, allow, steps, calls),
            [k, seed, iters, tasks, calls] if k == "urw" => run_urw(seed, iters, tasks, calls),
            _ => "ERR bad case".to_string(),
        })
    }));
    res.unwrap_or_else(|_| "C".to_string())
}
