//! pl layer (C20): programs over the wrapper crates (parking_lot RwLock/Mutex, DashMap/DashSet, the rand
//! replacement, lazy_static) run on the real crates under a scripted scheduler, printed in the canonical form of
//! ocaml/l_pl.ml; sequential histories over the deterministic HashMap/HashSet; lazy statics over several executions.
//! No oracle logic lives here.
use deterministic_collections::{HashMap as DMap, HashSet as DSet};
use shuttle::thread;
use shuttle_dashmap_impl::{DashMap, DashSet, TryResult};
use shuttle_engine::runtime::execution::CurrentSchedule;
use shuttle_engine::runtime::runner::Runner;
use shuttle_engine::scheduler::{Schedule, ScheduleStep, Scheduler, Task, TaskId};
use shuttle_engine::{Config, FailurePersistence, MaxSteps};
use shuttle_parking_lot_impl as pl;
use shuttle_rand_0_8_inner as srand;
use srand::{Rng, RngCore, SeedableRng};
use std::cell::{Cell, RefCell};
use std::panic::{catch_unwind, AssertUnwindSafe};
use std::sync::Arc;

thread_local! {
    static LOG: RefCell<Vec<String>> = const { RefCell::new(Vec::new()) };
    static LAST_TASK: Cell<usize> = const { Cell::new(0) };
    /// the lazily initialised objects of the program in progress: object index of static slot i
    static LZ_OBJ: RefCell<Vec<usize>> = const { RefCell::new(Vec::new()) };
}

fn log(s: String) {
    LOG.with(|l| l.borrow_mut().push(s));
}

// ---------------- the scripted scheduler (same rules as the prog layer) ----------------
struct Scripted {
    script: Vec<Option<usize>>,
    pos: usize,
    rnd: u64,
    started: bool,
}

fn log_decision(runnable: &[&Task], current: Option<TaskId>, is_yielding: bool, choice: Option<usize>) {
    log(format!(
        "D[{}]c{}y{}>{}",
        runnable.iter().map(|t| usize::from(t.id()).to_string()).collect::<Vec<_>>().join(","),
        current.map(|c| usize::from(c).to_string()).unwrap_or("-".into()),
        is_yielding as u8,
        choice.map(|c| c.to_string()).unwrap_or("x".into())
    ));
}

impl Scheduler for Scripted {
    fn new_execution(&mut self) -> Option<Schedule> {
        if self.started {
            None
        } else {
            self.started = true;
            Some(Schedule::new(0))
        }
    }

    fn next_task(&mut self, runnable: &[&Task], current: Option<TaskId>, is_yielding: bool) -> Option<TaskId> {
        let ids: Vec<usize> = runnable.iter().map(|t| usize::from(t.id())).collect();
        let choice = if self.pos >= self.script.len() {
            ids.first().copied()
        } else {
            let c = self.script[self.pos];
            self.pos += 1;
            c.map(|i| ids[i % ids.len()])
        };
        log_decision(runnable, current, is_yielding, choice);
        choice.map(TaskId::from)
    }

    fn next_u64(&mut self) -> u64 {
        self.rnd = self.rnd.wrapping_mul(6364136223846793005).wrapping_add(1442695040888963407);
        log(format!("R{}", self.rnd));
        self.rnd
    }
}

/// A transparent wrapper around a built-in scheduler: logs decisions and draws, marks execution boundaries.
struct Rec<S: Scheduler> {
    inner: S,
}
impl<S: Scheduler> Scheduler for Rec<S> {
    fn new_execution(&mut self) -> Option<Schedule> {
        log("X".to_string());
        LZ_SEEN.with(|l| l.borrow_mut().push(LZ_LIVE.load(std::sync::atomic::Ordering::SeqCst)));
        self.inner.new_execution()
    }
    fn next_task(&mut self, runnable: &[&Task], current: Option<TaskId>, is_yielding: bool) -> Option<TaskId> {
        let c = self.inner.next_task(runnable, current, is_yielding);
        log_decision(runnable, current, is_yielding, c.map(usize::from));
        c
    }
    fn next_u64(&mut self) -> u64 {
        let v = self.inner.next_u64();
        log(format!("R{}", v));
        v
    }
}

// ---------------- programs ----------------
#[derive(Clone, Debug)]
struct Op {
    name: String,
    a: Vec<u64>,
}

struct Prog {
    specs: Vec<String>,
    bodies: Vec<Vec<Op>>,
}

enum Obj {
    Rw(pl::RwLock<u64>),
    Mx(pl::Mutex<u64>),
    Dm(DashMap<u64, u64>),
    Ds(DashSet<u64>),
    Lz(usize),
}

// two lazily initialised statics: the initialiser logs itself and draws its value from Shuttle's data source
fn lz_init(slot: usize) -> LzVal {
    let o = LZ_OBJ.with(|l| l.borrow().get(slot).copied().unwrap_or(99));
    log_op(111, &[o as u64]);
    LZ_LIVE.fetch_add(1, std::sync::atomic::Ordering::SeqCst);
    LzVal(srand::thread_rng().next_u64())
}
/// the value of a lazy static: counted, so that values which outlive their execution can be seen
struct LzVal(u64);
impl Drop for LzVal {
    fn drop(&mut self) {
        LZ_LIVE.fetch_sub(1, std::sync::atomic::Ordering::SeqCst);
    }
}
static LZ_LIVE: std::sync::atomic::AtomicI64 = std::sync::atomic::AtomicI64::new(0);
thread_local! {
    /// number of lazy-static values alive at every new_execution call of the current `multi` run
    static LZ_SEEN: RefCell<Vec<i64>> = const { RefCell::new(Vec::new()) };
}
shuttle_lazy_static_impl::lazy_static! {
    static ref LZ0: LzVal = lz_init(0);
    static ref LZ1: LzVal = lz_init(1);
}

enum Guard<'a> {
    R(usize, pl::RwLockReadGuard<'a, u64>),
    W(usize, pl::RwLockWriteGuard<'a, u64>),
    U(usize, pl::RwLockUpgradableReadGuard<'a, u64>),
    M(usize, pl::MutexGuard<'a, u64>),
    DRef(usize, shuttle_dashmap_impl::Ref<'a, u64, u64>),
    DMut(usize, shuttle_dashmap_impl::RefMut<'a, u64, u64>),
}
impl Guard<'_> {
    fn obj(&self) -> usize {
        match self {
            Guard::R(o, _) | Guard::W(o, _) | Guard::U(o, _) | Guard::M(o, _) | Guard::DRef(o, _) | Guard::DMut(o, _) => *o,
        }
    }
    fn kind(&self) -> u64 {
        match self {
            Guard::R(..) => 0,
            Guard::W(..) => 1,
            Guard::U(..) => 2,
            Guard::M(..) => 3,
            Guard::DRef(..) => 4,
            Guard::DMut(..) => 5,
        }
    }
}

fn parse_op(w: &str) -> Op {
    let mut it = w.split('.');
    let name = it.next().unwrap_or("").to_string();
    let a = it.map(|x| x.parse::<u64>().expect("vharness: bad op argument")).collect();
    Op { name, a }
}

fn parse_prog(objs: &str, bodies: &str) -> Arc<Prog> {
    let specs: Vec<String> = crate::split_list(objs, ',').iter().map(|s| s.to_string()).collect();
    let bodies = bodies.split('|').map(|b| crate::split_list(b, ';').iter().map(|w| parse_op(w)).collect()).collect();
    Arc::new(Prog { specs, bodies })
}

fn make_objs(specs: &[String]) -> Vec<Obj> {
    let mut nlz = 0;
    let mut lz = Vec::new();
    let v = specs
        .iter()
        .enumerate()
        .map(|(i, w)| match w.as_str() {
            "L" => Obj::Rw(pl::RwLock::new(0)),
            "M" => Obj::Mx(pl::Mutex::new(0)),
            "D" => Obj::Dm(DashMap::new()),
            "S" => Obj::Ds(DashSet::new()),
            "Z" => {
                lz.push(i);
                nlz += 1;
                Obj::Lz(nlz - 1)
            }
            _ => panic!("vharness: bad object {w}"),
        })
        .collect();
    LZ_OBJ.with(|l| *l.borrow_mut() = lz);
    v
}

fn me() -> usize {
    usize::from(shuttle::current::me())
}

fn log_op(tag: u32, vals: &[u64]) {
    let clk = shuttle::current::clock();
    let clk: Vec<String> = clk.iter().map(|x| x.to_string()).collect();
    log(format!(
        "O{}:{}:{}@{}",
        me(),
        tag,
        vals.iter().map(|v| v.to_string()).collect::<Vec<_>>().join(","),
        clk.join(".")
    ));
}

const T_BEGIN: u32 = 49;
const T_SKIP: u32 = 48;

fn opcode(name: &str) -> u64 {
    const NAMES: [&str; 49] = [
        "sp", "jn", "yd", "rd", "wr", "ur", "tr", "tw", "tu", "ul", "up", "tg", "dg", "du", "dw", "wu", "tq", "gv", "iv", "bp", "lk", "tl",
        "rn", "r3", "rb", "rr", "rg", "rq", "dins", "dget", "drem", "dlen", "dcon", "dalt", "dent", "dret", "dclr", "dit", "dref", "dmut",
        "dtry", "sins", "srem", "scon", "slen", "lz", "drif", "drim", "dvw",
    ];
    NAMES.iter().position(|n| *n == name).map(|p| p as u64).unwrap_or(999)
}

/// the newest guard of object `o` (any kind) leaves the list
fn take_guard<'a>(gs: &mut Vec<Guard<'a>>, o: usize) -> Option<Guard<'a>> {
    let pos = gs.iter().rposition(|g| g.obj() == o)?;
    Some(gs.remove(pos))
}

fn run_body(p: Arc<Prog>, objs: Arc<Vec<Obj>>, b: usize) -> u64 {
    let objs_ref: &Vec<Obj> = &objs;
    let mut guards: Vec<Guard> = Vec::new();
    let mut handles: Vec<Option<thread::JoinHandle<u64>>> = Vec::new();
    let ops = p.bodies.get(b).cloned().unwrap_or_default();
    for op in ops {
        LAST_TASK.with(|c| c.set(me()));
        let a = |i: usize| -> u64 { op.a.get(i).copied().unwrap_or(0) };
        let o = a(0) as usize;
        let code = opcode(&op.name);
        let skip = |why: u64| log_op(T_SKIP, &[code, o as u64, why]);
        match op.name.as_str() {
            "sp" if o <= b => skip(4),
            "sp" => {
                let (p2, o2) = (p.clone(), objs.clone());
                let j = o;
                let h = thread::spawn(move || run_body(p2, o2, j));
                let tid: usize = h.thread().id().into();
                handles.push(Some(h));
                log_op(1, &[tid as u64]);
            }
            "jn" => match handles.get_mut(o).and_then(|x| x.take()) {
                Some(jh) => {
                    let tid: usize = jh.thread().id().into();
                    let v = jh.join().unwrap();
                    log_op(2, &[tid as u64, v]);
                }
                None => skip(0),
            },
            "yd" => {
                thread::yield_now();
                log_op(3, &[]);
            }
            // ---- parking_lot RwLock ----
            "rd" | "wr" | "ur" | "tr" | "tw" | "tu" => {
                let Some(Obj::Rw(l)) = objs_ref.get(o) else {
                    skip(1);
                    continue;
                };
                log_op(T_BEGIN, &[code, o as u64]);
                match op.name.as_str() {
                    "rd" => {
                        let g = l.read();
                        guards.push(Guard::R(o, g));
                        log_op(51, &[o as u64]);
                    }
                    "wr" => {
                        let g = l.write();
                        guards.push(Guard::W(o, g));
                        log_op(52, &[o as u64]);
                    }
                    "ur" => {
                        let g = l.upgradable_read();
                        guards.push(Guard::U(o, g));
                        log_op(53, &[o as u64]);
                    }
                    "tr" => {
                        let g = l.try_read();
                        log_op(54, &[o as u64, g.is_some() as u64]);
                        if let Some(g) = g {
                            guards.push(Guard::R(o, g));
                        }
                    }
                    "tw" => {
                        let g = l.try_write();
                        log_op(55, &[o as u64, g.is_some() as u64]);
                        if let Some(g) = g {
                            guards.push(Guard::W(o, g));
                        }
                    }
                    _ => {
                        let g = l.try_upgradable_read();
                        log_op(56, &[o as u64, g.is_some() as u64]);
                        if let Some(g) = g {
                            guards.push(Guard::U(o, g));
                        }
                    }
                }
            }
            "ul" => match take_guard(&mut guards, o) {
                Some(g) => {
                    let k = g.kind();
                    log_op(T_BEGIN, &[code, o as u64]);
                    drop(g);
                    log_op(57, &[o as u64, k]);
                }
                None => skip(2),
            },
            "up" | "tg" | "du" | "wu" | "tq" => match take_guard(&mut guards, o) {
                Some(Guard::U(_, mut g)) => {
                    log_op(T_BEGIN, &[code, o as u64]);
                    match op.name.as_str() {
                        "up" => {
                            let w = pl::RwLockUpgradableReadGuard::upgrade(g);
                            guards.push(Guard::W(o, w));
                            log_op(58, &[o as u64]);
                        }
                        "tg" => match pl::RwLockUpgradableReadGuard::try_upgrade(g) {
                            Ok(w) => {
                                guards.push(Guard::W(o, w));
                                log_op(59, &[o as u64, 1]);
                            }
                            Err(g) => {
                                guards.push(Guard::U(o, g));
                                log_op(59, &[o as u64, 0]);
                            }
                        },
                        "du" => {
                            let r = pl::RwLockUpgradableReadGuard::downgrade(g);
                            guards.push(Guard::R(o, r));
                            log_op(61, &[o as u64]);
                        }
                        "wu" => {
                            let v = g.with_upgraded(|v| {
                                *v += 1;
                                log_op(68, &[o as u64, *v]);
                                *v
                            });
                            guards.push(Guard::U(o, g));
                            log_op(63, &[o as u64, v]);
                        }
                        _ => {
                            let v = g.try_with_upgraded(|v| {
                                *v += 1;
                                log_op(68, &[o as u64, *v]);
                                *v
                            });
                            guards.push(Guard::U(o, g));
                            log_op(64, &[o as u64, v.is_some() as u64, v.unwrap_or(0)]);
                        }
                    }
                }
                Some(g) => {
                    guards.push(g);
                    skip(3)
                }
                None => skip(2),
            },
            "dg" | "dw" => match take_guard(&mut guards, o) {
                Some(Guard::W(_, g)) => {
                    log_op(T_BEGIN, &[code, o as u64]);
                    if op.name == "dg" {
                        let r = pl::RwLockWriteGuard::downgrade(g);
                        guards.push(Guard::R(o, r));
                        log_op(60, &[o as u64]);
                    } else {
                        let u = pl::RwLockWriteGuard::downgrade_to_upgradable(g);
                        guards.push(Guard::U(o, u));
                        log_op(62, &[o as u64]);
                    }
                }
                Some(g) => {
                    guards.push(g);
                    skip(3)
                }
                None => skip(2),
            },
            "bp" => match take_guard(&mut guards, o) {
                Some(Guard::R(_, mut g)) => {
                    log_op(T_BEGIN, &[code, o as u64]);
                    pl::RwLockReadGuard::bump(&mut g);
                    guards.push(Guard::R(o, g));
                    log_op(67, &[o as u64, 0]);
                }
                Some(Guard::W(_, mut g)) => {
                    log_op(T_BEGIN, &[code, o as u64]);
                    pl::RwLockWriteGuard::bump(&mut g);
                    guards.push(Guard::W(o, g));
                    log_op(67, &[o as u64, 1]);
                }
                Some(Guard::M(_, mut g)) => {
                    log_op(T_BEGIN, &[code, o as u64]);
                    pl::MutexGuard::bump(&mut g);
                    guards.push(Guard::M(o, g));
                    log_op(67, &[o as u64, 3]);
                }
                Some(g) => {
                    guards.push(g);
                    skip(3)
                }
                None => skip(2),
            },
            "gv" => match guards.iter().rev().find(|g| g.obj() == o) {
                Some(Guard::R(_, g)) => log_op(65, &[o as u64, **g]),
                Some(Guard::W(_, g)) => log_op(65, &[o as u64, **g]),
                Some(Guard::U(_, g)) => log_op(65, &[o as u64, **g]),
                Some(Guard::M(_, g)) => log_op(65, &[o as u64, **g]),
                Some(_) => skip(3),
                None => skip(2),
            },
            "iv" => match guards.iter_mut().rev().find(|g| g.obj() == o) {
                Some(Guard::W(_, g)) => {
                    **g += 1;
                    log_op(66, &[o as u64, **g]);
                }
                Some(Guard::M(_, g)) => {
                    **g += 1;
                    log_op(66, &[o as u64, **g]);
                }
                Some(_) => skip(3),
                None => skip(2),
            },
            // ---- parking_lot Mutex ----
            "lk" | "tl" => {
                let Some(Obj::Mx(m)) = objs_ref.get(o) else {
                    skip(1);
                    continue;
                };
                log_op(T_BEGIN, &[code, o as u64]);
                if op.name == "lk" {
                    let g = m.lock();
                    guards.push(Guard::M(o, g));
                    log_op(70, &[o as u64]);
                } else {
                    let g = m.try_lock();
                    log_op(71, &[o as u64, g.is_some() as u64]);
                    if let Some(g) = g {
                        guards.push(Guard::M(o, g));
                    }
                }
            }
            // ---- the rand replacement ----
            "rn" => {
                let v = srand::thread_rng().next_u64();
                log_op(80, &[v]);
            }
            "r3" => {
                let v = srand::rngs::StdRng::from_seed([7u8; 32]).next_u32();
                log_op(81, &[v as u64]);
            }
            "rb" => {
                let mut buf = vec![0u8; (o % 40) as usize];
                srand::thread_rng().fill_bytes(&mut buf);
                let vals: Vec<u64> = buf.iter().map(|b| *b as u64).collect();
                log_op(82, &vals);
            }
            "rr" => {
                let v: u64 = srand::random();
                log_op(83, &[v]);
            }
            "rg" => {
                let n = a(0).max(1);
                let v: u64 = srand::thread_rng().gen_range(0..n);
                log_op(84, &[n, v]);
            }
            "rq" => {
                let v: bool = srand::rngs::StdRng::seed_from_u64(1).r#gen();
                log_op(85, &[v as u64]);
            }
            // ---- DashMap ----
            "dins" | "dget" | "drem" | "dlen" | "dcon" | "dalt" | "dent" | "dret" | "dclr" | "dit" | "dref" | "dmut" | "dtry" | "drif" | "drim"
            | "dvw" => {
                let Some(Obj::Dm(m)) = objs_ref.get(o) else {
                    skip(1);
                    continue;
                };
                let (k, v) = (a(1), a(2));
                if op.name != "dtry" && guards.iter().any(|g| g.obj() == o) {
                    skip(5);
                    continue;
                }
                log_op(T_BEGIN, &[code, o as u64]);
                match op.name.as_str() {
                    "dins" => {
                        let old = m.insert(k, v);
                        log_op(90, &[o as u64, k, v, old.is_some() as u64, old.unwrap_or(0)]);
                    }
                    "dget" => {
                        let r = m.get(&k).map(|r| *r);
                        log_op(91, &[o as u64, k, r.is_some() as u64, r.unwrap_or(0)]);
                    }
                    "drem" => {
                        let r = m.remove(&k);
                        log_op(92, &[o as u64, k, r.is_some() as u64, r.map(|x| x.1).unwrap_or(0)]);
                    }
                    "dlen" => {
                        let n = m.len();
                        log_op(93, &[o as u64, n as u64]);
                    }
                    "dcon" => {
                        let c = m.contains_key(&k);
                        log_op(94, &[o as u64, k, c as u64]);
                    }
                    "dalt" => {
                        m.alter(&k, |_, x| x.wrapping_add(v));
                        log_op(95, &[o as u64, k, v]);
                    }
                    "dent" => {
                        let r = *m.entry(k).or_insert(v);
                        log_op(96, &[o as u64, k, v, r]);
                    }
                    "dret" => {
                        let (md, rm) = (k.max(1), v);
                        m.retain(|kk, vv| (kk.wrapping_add(*vv)) % md != rm);
                        log_op(97, &[o as u64, md, rm]);
                    }
                    "dclr" => {
                        m.clear();
                        log_op(98, &[o as u64]);
                    }
                    "drif" => {
                        let p = v;
                        let (mut seen, mut called) = (0u64, false);
                        let r = m.remove_if(&k, |_, x| {
                            called = true;
                            seen = *x;
                            *x % 2 == p % 2
                        });
                        match r {
                            Some((_, x)) => log_op(112, &[o as u64, k, p, 1, x]),
                            None if called => log_op(112, &[o as u64, k, p, 0, seen]),
                            None => log_op(112, &[o as u64, k, p, 2, 0]),
                        }
                    }
                    "drim" => {
                        let p = v;
                        let (mut seen, mut called) = (0u64, false);
                        let r = m.remove_if_mut(&k, |_, x| {
                            called = true;
                            *x = x.wrapping_add(1);
                            seen = *x;
                            *x % 2 == p % 2
                        });
                        match r {
                            Some((_, x)) => log_op(113, &[o as u64, k, p, 1, x]),
                            None if called => log_op(113, &[o as u64, k, p, 0, seen]),
                            None => log_op(113, &[o as u64, k, p, 2, 0]),
                        }
                    }
                    "dvw" => {
                        let r = m.view(&k, |_, x| *x);
                        log_op(114, &[o as u64, k, r.is_some() as u64, r.unwrap_or(0)]);
                    }
                    "dit" => {
                        let mut items: Vec<(u64, u64)> = m.iter().map(|r| (*r.key(), *r.value())).collect();
                        items.sort();
                        let mut vals = vec![o as u64];
                        for (kk, vv) in items {
                            vals.push(kk);
                            vals.push(vv);
                        }
                        log_op(99, &vals);
                    }
                    "dref" => match m.get(&k) {
                        Some(r) => {
                            let val = *r;
                            guards.push(Guard::DRef(o, r));
                            log_op(100, &[o as u64, k, 1, val]);
                        }
                        None => log_op(100, &[o as u64, k, 0, 0]),
                    },
                    "dmut" => match m.get_mut(&k) {
                        Some(mut r) => {
                            *r = r.wrapping_add(v);
                            let val = *r;
                            guards.push(Guard::DMut(o, r));
                            log_op(101, &[o as u64, k, v, 1, val]);
                        }
                        None => log_op(101, &[o as u64, k, v, 0, 0]),
                    },
                    _ => {
                        let (c, val) = match m.try_get(&k) {
                            TryResult::Present(r) => (0, *r),
                            TryResult::Absent => (1, 0),
                            TryResult::Locked => (2, 0),
                        };
                        log_op(103, &[o as u64, k, c, val]);
                    }
                }
            }
            "sins" | "srem" | "scon" | "slen" => {
                let Some(Obj::Ds(s)) = objs_ref.get(o) else {
                    skip(1);
                    continue;
                };
                let k = a(1);
                log_op(T_BEGIN, &[code, o as u64]);
                match op.name.as_str() {
                    "sins" => {
                        let r = s.insert(k);
                        log_op(104, &[o as u64, k, r as u64]);
                    }
                    "srem" => {
                        let r = s.remove(&k);
                        log_op(105, &[o as u64, k, r.is_some() as u64]);
                    }
                    "scon" => {
                        let r = s.contains(&k);
                        log_op(106, &[o as u64, k, r as u64]);
                    }
                    _ => {
                        let n = s.len();
                        log_op(107, &[o as u64, n as u64]);
                    }
                }
            }
            // ---- lazy_static ----
            "lz" => {
                let Some(Obj::Lz(slot)) = objs_ref.get(o) else {
                    skip(1);
                    continue;
                };
                log_op(T_BEGIN, &[code, o as u64]);
                let v: u64 = if *slot == 0 { LZ0.0 } else { LZ1.0 };
                log_op(110, &[o as u64, v]);
            }
            _ => skip(9),
        }
    }
    log_op(9, &[]);
    // guards still held are released newest first
    while let Some(g) = guards.pop() {
        let (o, k) = (g.obj() as u64, g.kind());
        log_op(T_BEGIN, &[9, o]);
        drop(g);
        log_op(57, &[o, k]);
    }
    1000 + me() as u64
}

fn classify(payload: Box<dyn std::any::Any + Send>) -> String {
    let msg = if let Some(s) = payload.downcast_ref::<String>() {
        s.clone()
    } else if let Some(s) = payload.downcast_ref::<&str>() {
        s.to_string()
    } else {
        "<non-string payload>".to_string()
    };
    if msg.starts_with("deadlock! blocked tasks:") {
        let mut ids = Vec::new();
        let mut rest = msg.as_str();
        while let Some(i) = rest.find("(task ") {
            rest = &rest[i + 6..];
            let open = rest.find('(').unwrap_or(0);
            rest = &rest[open + 1..];
            let end = rest.find(|c: char| !c.is_ascii_digit()).unwrap_or(rest.len());
            ids.push(rest[..end].to_string());
        }
        format!("deadlock:[{}]", ids.join(","))
    } else if msg.starts_with("exceeded max_steps bound") {
        "stepbound".to_string()
    } else if msg.starts_with("no task was scheduled") {
        "schedbug".to_string()
    } else {
        let last = LOG.with(|l| {
            l.borrow()
                .iter()
                .rev()
                .find(|e| e.starts_with('D'))
                .and_then(|e| e.rsplit('>').next().map(|x| x.to_string()))
        });
        if std::env::var("VH_HOOK").is_ok() {
            eprintln!("vharness: panic message: {msg}");
        }
        format!("panic:{}", last.unwrap_or_else(|| LAST_TASK.with(|c| c.get()).to_string()))
    }
}

fn parse_config(ms: &str) -> Option<Config> {
    let mut config = Config::new();
    config.failure_persistence = FailurePersistence::None;
    config.silence_warnings = true;
    config.max_steps = match ms.split(':').collect::<Vec<_>>()[..] {
        ["none"] => MaxSteps::None,
        ["fail", n] => MaxSteps::FailAfter(n.parse().ok()?),
        ["cont", n] => MaxSteps::ContinueAfter(n.parse().ok()?),
        _ => return None,
    };
    Some(config)
}

fn show_sched(recorded: &Schedule) -> String {
    recorded
        .steps
        .iter()
        .map(|s| match s {
            ScheduleStep::Task(t) => format!("t{}", usize::from(*t)),
            ScheduleStep::Random => "r".to_string(),
        })
        .collect::<Vec<_>>()
        .join(",")
}

/// pl <ms> <script> <rseed> <objs> <bodies>
fn run_pl(words: &[&str]) -> String {
    let [_, ms, script, rseed, objs, bodies] = words else {
        return "ERR bad case".to_string();
    };
    let Some(config) = parse_config(ms) else { return "ERR bad max_steps".to_string() };
    let script: Vec<Option<usize>> = crate::split_list(script, ',')
        .iter()
        .map(|w| if *w == "x" { None } else { Some(w.parse().unwrap()) })
        .collect();
    let prog = parse_prog(objs, bodies);
    let sched = Scripted { script, pos: 0, rnd: rseed.parse().unwrap(), started: false };
    LOG.with(|l| l.borrow_mut().clear());
    LAST_TASK.with(|c| c.set(0));
    let p2 = prog.clone();
    let res = catch_unwind(AssertUnwindSafe(|| {
        Runner::new(sched, config).run(move || {
            let objs = Arc::new(make_objs(&p2.specs));
            run_body(p2.clone(), objs, 0);
        })
    }));
    let recorded = CurrentSchedule::get_schedule();
    let term = match res {
        Ok(_) => "ok".to_string(),
        Err(p) => classify(p),
    };
    let mut out = LOG.with(|l| l.borrow().join(" "));
    if !out.is_empty() {
        out.push(' ');
    }
    format!("{}T={} S={}", out, term, show_sched(&recorded))
}

/// multi <kind> <seed> <iters> <objs> <bodies>: the program under a built-in scheduler for several executions; the
/// log of every execution (`X` marks a new_execution call), for the per-execution oracles (lazy statics, draws)
fn run_multi(words: &[&str]) -> String {
    let [_, kind, seed, iters, objs, bodies] = words else {
        return "ERR bad case".to_string();
    };
    let seed: u64 = seed.parse().unwrap();
    let iters: usize = iters.parse().unwrap();
    let prog = parse_prog(objs, bodies);
    let mut config = Config::new();
    config.failure_persistence = FailurePersistence::None;
    config.silence_warnings = true;
    LOG.with(|l| l.borrow_mut().clear());
    LZ_SEEN.with(|l| l.borrow_mut().clear());
    let base = LZ_LIVE.load(std::sync::atomic::Ordering::SeqCst);
    let p2 = prog.clone();
    let body = move || {
        let objs = Arc::new(make_objs(&p2.specs));
        run_body(p2.clone(), objs, 0);
    };
    let res = catch_unwind(AssertUnwindSafe(|| match *kind {
        "random" => Runner::new(Rec { inner: shuttle_schedulers::RandomScheduler::new_from_seed(seed, iters) }, config).run(body),
        "pct" => Runner::new(Rec { inner: shuttle_schedulers::PctScheduler::new_from_seed(seed, 2, iters) }, config).run(body),
        _ => Runner::new(Rec { inner: shuttle_schedulers::DfsScheduler::new(Some(iters), true) }, config).run(body),
    }));
    let term = match res {
        Ok(n) => format!("ok:{n}"),
        Err(p) => classify(p),
    };
    let out = LOG.with(|l| l.borrow().join(" "));
    // lazy-static values alive at the start of every execution and after the run (relative to the start of the run)
    let mut seen = LZ_SEEN.with(|l| l.borrow().clone());
    seen.push(LZ_LIVE.load(std::sync::atomic::Ordering::SeqCst));
    let lz = seen.iter().map(|x| (x - base).to_string()).collect::<Vec<_>>().join(",");
    format!("{} T={} LZ={}", out, term, lz)
}

// ---------------- sequential histories over the deterministic collections ----------------
/// A self-describing deserializer around a map deserializer: the derived impl of the wrapper asks for a newtype struct.
struct Newtype<D>(D);
impl<'de, D: serde::Deserializer<'de>> serde::Deserializer<'de> for Newtype<D> {
    type Error = D::Error;
    fn deserialize_any<V: serde::de::Visitor<'de>>(self, visitor: V) -> Result<V::Value, Self::Error> {
        self.0.deserialize_any(visitor)
    }
    fn deserialize_newtype_struct<V: serde::de::Visitor<'de>>(self, _name: &'static str, visitor: V) -> Result<V::Value, Self::Error> {
        visitor.visit_newtype_struct(self.0)
    }
    serde::forward_to_deserialize_any! {
        bool i8 i16 i32 i64 i128 u8 u16 u32 u64 u128 f32 f64 char str string bytes byte_buf option unit unit_struct
        seq tuple tuple_struct map struct enum identifier ignored_any
    }
}

fn show_pairs(v: &[(u64, u64)]) -> String {
    v.iter().map(|(k, x)| format!("{k}:{x}")).collect::<Vec<_>>().join(".")
}
fn show_keys(v: &[u64]) -> String {
    v.iter().map(|k| k.to_string()).collect::<Vec<_>>().join(".")
}
fn opt(v: Option<u64>) -> String {
    v.map(|x| x.to_string()).unwrap_or("-".into())
}

/// One instance of the history machine: a map M and two sets A, B.  Returns (results, raw iteration orders).
fn run_history(ops: &[Op]) -> (Vec<String>, Vec<String>) {
    let mut m: DMap<u64, u64> = DMap::new();
    let mut sa: DSet<u64> = DSet::new();
    let mut sb: DSet<u64> = DSet::new();
    let mut res = Vec::new();
    let mut ord = Vec::new();
    for op in ops {
        let a = |i: usize| -> u64 { op.a.get(i).copied().unwrap_or(0) };
        let r = match op.name.as_str() {
            "i" => opt(m.insert(a(0), a(1))),
            "r" => opt(m.remove(&a(0))),
            "g" => opt(m.get(&a(0)).copied()),
            "c" => (m.contains_key(&a(0)) as u64).to_string(),
            "n" => m.len().to_string(),
            "x" => {
                m.clear();
                "_".into()
            }
            "t" => {
                let (md, rm) = (a(0).max(1), a(1));
                m.retain(|k, v| (k.wrapping_add(*v)) % md != rm);
                "_".into()
            }
            "e" => m.entry(a(0)).or_insert(a(1)).to_string(),
            "a" => {
                let d = a(1);
                m.entry(a(0)).and_modify(|v| *v = v.wrapping_add(d)).or_insert(d).to_string()
            }
            "ex" => {
                let items: Vec<(u64, u64)> = op.a.chunks(2).filter(|c| c.len() == 2).map(|c| (c[0], c[1])).collect();
                m.extend(items);
                "_".into()
            }
            "cl" => {
                m = m.clone();
                "_".into()
            }
            "fi" => {
                let items: Vec<(u64, u64)> = m.into_iter().collect();
                m = DMap::from_iter(items);
                "_".into()
            }
            "wc" => {
                // a new map with a capacity, filled from the old one in its iteration order
                let mut n = DMap::with_capacity((a(0) % 64) as usize);
                for (k, v) in m.iter() {
                    n.insert(*k, *v);
                }
                m = n;
                "_".into()
            }
            "sh" => {
                m.shrink_to_fit();
                "_".into()
            }
            "rs" => {
                m.reserve((a(0) % 256) as usize);
                "_".into()
            }
            "dr" => {
                let raw: Vec<(u64, u64)> = m.drain().collect();
                ord.push(show_pairs(&raw));
                let mut s = raw.clone();
                s.sort();
                show_pairs(&s)
            }
            "de" => {
                // serde round trip through the derive(Deserialize) of the wrapper (MapDeserializer over the pairs)
                use serde::Deserialize;
                let items: Vec<(u64, u64)> = m.iter().map(|(k, v)| (*k, *v)).collect();
                let de = serde::de::value::MapDeserializer::<_, serde::de::value::Error>::new(items.into_iter());
                m = DMap::<u64, u64>::deserialize(Newtype(de)).expect("vharness: deserialize");
                "_".into()
            }
            "sf" => {
                // From<std HashMap> (documented to rebuild under the fixed state)
                let mut s: std::collections::HashMap<u64, u64> = std::collections::HashMap::new();
                for (k, v) in m.iter() {
                    s.insert(*k, *v);
                }
                m = DMap::from(s);
                "_".into()
            }
            "it" => {
                let raw: Vec<(u64, u64)> = m.iter().map(|(k, v)| (*k, *v)).collect();
                ord.push(show_pairs(&raw));
                let mut s = raw.clone();
                s.sort();
                show_pairs(&s)
            }
            "ks" => {
                let raw: Vec<u64> = m.keys().copied().collect();
                ord.push(show_keys(&raw));
                let mut s = raw.clone();
                s.sort();
                show_keys(&s)
            }
            // sets
            "si" => (sa.insert(a(0)) as u64).to_string(),
            "sr" => (sa.remove(&a(0)) as u64).to_string(),
            "sc" => (sa.contains(&a(0)) as u64).to_string(),
            "sn" => sa.len().to_string(),
            "bi" => (sb.insert(a(0)) as u64).to_string(),
            "br" => (sb.remove(&a(0)) as u64).to_string(),
            "or" => {
                sa = &sa | &sb;
                "_".into()
            }
            "an" => {
                sa = &sa & &sb;
                "_".into()
            }
            "xo" => {
                sa = &sa ^ &sb;
                "_".into()
            }
            "su" => {
                sa = &sa - &sb;
                "_".into()
            }
            "sx" => {
                sa.extend(op.a.iter().copied());
                "_".into()
            }
            "sl" => {
                sa = sa.clone();
                "_".into()
            }
            "st" => {
                let raw: Vec<u64> = sa.iter().copied().collect();
                ord.push(show_keys(&raw));
                let mut s = raw.clone();
                s.sort();
                show_keys(&s)
            }
            _ => "?".into(),
        };
        res.push(r);
    }
    (res, ord)
}

/// hist <ops>: the history on two instances, one after the other; `ORD=` carries the raw iteration orders of both
fn run_hist(words: &[&str]) -> String {
    let [_, ops] = words else {
        return "ERR bad case".to_string();
    };
    let ops: Vec<Op> = crate::split_list(ops, ';').iter().map(|w| parse_op(w)).collect();
    let r = catch_unwind(AssertUnwindSafe(|| {
        let (r1, o1) = run_history(&ops);
        let (r2, o2) = run_history(&ops);
        (r1, o1, r2, o2)
    }));
    match r {
        Ok((r1, o1, r2, o2)) => format!(
            "{} ORD={} ORD2={} RES2={}",
            r1.join(","),
            o1.join(","),
            o2.join(","),
            if r1 == r2 { "same".to_string() } else { r2.join(",") }
        ),
        Err(_) => "PANIC".to_string(),
    }
}

pub fn run(words: &[&str]) -> String {
    match words.first() {
        Some(&"pl") => run_pl(words),
        Some(&"multi") => run_multi(words),
        Some(&"hist") => run_hist(words),
        _ => "ERR bad case".to_string(),
    }
}
