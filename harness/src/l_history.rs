//! history layer: a list of configured runs executed in ONE process (the panic hook and the thread-local
//! persistence marker survive from run to run).  One history per process: `vharness history <dir>` reads the
//! runs from stdin, one per line:
//!   run <none|print|file> <same|new> <ms> <script> <rseed> <objs> <bodies>
//! For each run k it prints `@@BEGIN k` / `@@END k` markers on stderr around the run (so that the caller can
//! attribute what Shuttle wrote to stderr) and one result line on stdout:
//!   R k T=<term> payload=<class> S=<recorded schedule as printed string> files=<name:content,...>
use crate::l_prog;
use std::io::BufRead;

fn list_files(dir: &str) -> Vec<String> {
    let mut v: Vec<String> = std::fs::read_dir(dir)
        .map(|rd| rd.filter_map(|e| e.ok()).map(|e| e.file_name().to_string_lossy().to_string()).collect())
        .unwrap_or_default();
    v.sort();
    v
}

pub fn main_history(dir: &str) {
    let stdin = std::io::stdin();
    let mut k = 0usize;
    for line in stdin.lock().lines() {
        let line = line.unwrap();
        let words: Vec<String> = line.split(' ').filter(|w| !w.is_empty()).map(|s| s.to_string()).collect();
        if words.len() != 8 || words[0] != "run" {
            continue;
        }
        let before = list_files(dir);
        eprintln!("@@BEGIN {}", k);
        let persist = words[1].clone();
        let dir2 = dir.to_string();
        let w2 = words.clone();
        let job = move || {
            let ws: Vec<&str> = w2.iter().map(|s| s.as_str()).collect();
            l_prog::run_with_persistence(&ws[3..], &persist, &dir2)
        };
        let res = if words[2] == "new" {
            std::thread::spawn(job).join().unwrap_or_else(|_| "T=thread-panicked".to_string())
        } else {
            job()
        };
        eprintln!("@@END {}", k);
        let after = list_files(dir);
        let newf: Vec<String> = after
            .iter()
            .filter(|f| !before.contains(f))
            .map(|f| {
                let content = std::fs::read_to_string(format!("{}/{}", dir, f)).unwrap_or_default();
                format!("{}:{}", f, content.replace('\n', "|"))
            })
            .collect();
        println!("R {} {} files={}", k, res, if newf.is_empty() { "-".to_string() } else { newf.join(",") });
        k += 1;
    }
}
